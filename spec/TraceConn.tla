----------------------------- MODULE TraceConn -----------------------------
(***************************************************************************)
(* Validates what the connection-level concurrency harness                 *)
(* (harness/connconc, package yubiagent) observed on the real code against *)
(* ConnServe: K client connections served by the real yubiagent.ServeAgent *)
(* on one real shimagent.Server over one monitored upstream connection.    *)
(*                                                                         *)
(* conn.ndjson, in the global order of a sequence counter taken under one  *)
(* mutex:                                                                  *)
(*   reset            a new round (fresh server, K connections)            *)
(*   send c n kind    logged by client c BEFORE it writes request n        *)
(*   up   c n         logged by the underlying agent when it RECEIVES an   *)
(*                    echo request carrying tag <<c, n>> (0 0 = garbled)   *)
(*   upr  c n         logged when the underlying agent has answered it     *)
(*   recv c rc rn shape  logged by client c AFTER it read the reply:       *)
(*                    <<rc, rn>> = tag found in the reply, shape = echo /   *)
(*                    sig-own / list / anything else                       *)
(*   hang             the round did not finish (watchdog)                  *)
(* The handler's Read is not observable; it is composed with the next      *)
(* observed step of that connection.                                       *)
(***************************************************************************)
EXTENDS ConnServe, Json

TraceLog == ndJsonDeserialize("conn.ndjson")
VARIABLE l
tvars == <<st, l>>

Ev == TraceLog[l]
IsEv(name) == l <= Len(TraceLog) /\ Ev.ev = name /\ l' = l + 1
AfterRead(s, c) == IF ReadEn(s, c) THEN ReadF(s, c) ELSE s

TInit == st = Init0 /\ l = 1
TReset == IsEv("reset") /\ st' = Init0
TSend == IsEv("send") /\ LET c == Ev.c IN
            /\ c \in Conns /\ SendEn(st, c) /\ Ev.n = st.n[c] + 1 /\ Ev.kind \in Kinds
            /\ st' = SendF(st, c, Ev.kind)
TUp == IsEv("up") /\ LET c == Ev.c  s == AfterRead(st, c) IN
            /\ c \in Conns /\ UpEn(s, c) /\ s.buf[c] = Tag(c, Ev.n)
            /\ st' = UpF(s, c)
TUpR == IsEv("upr") /\ LET c == Ev.c IN
            /\ c \in Conns /\ UpREn(st, c) /\ st.uplog[Len(st.uplog)] = Tag(c, Ev.n)
            /\ st' = UpRF(st, c)
TRecv == IsEv("recv") /\ LET c == Ev.c
                             s0 == AfterRead(st, c)
                             s == IF LocalEn(s0, c) THEN LocalF(s0, c) ELSE s0 IN
            /\ c \in Conns /\ RecvEn(s, c)
            /\ Ev.rc = c /\ Ev.rn = s.n[c] /\ s.buf[c] = Tag(c, s.n[c])
            /\ Ev.shape = (CASE s.kind[c] = "echo" -> "echo" [] s.kind[c] = "sign" -> "sig-own" [] OTHER -> "list")
            /\ st' = RecvF(s, c)
TNext == TReset \/ TSend \/ TUp \/ TUpR \/ TRecv
TraceSpec == TInit /\ [][TNext]_tvars

\* one TLC run reports the first line that is not a step of ConnServe (the longest accepted prefix)
TraceAccepted == LET d == TLCGet("stats").diameter IN
                 IF d - 1 = Len(TraceLog) THEN TRUE
                 ELSE PrintT(<<"REJ", d, ToJson(TraceLog[d])>>) /\ FALSE
Inv == OwnReply /\ UpOnce /\ OneUp
=============================================================================
