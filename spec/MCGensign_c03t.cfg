SPECIFICATION Spec
CONSTANTS
  Sc1 <- C03t_Sc1
  Sc2 <- C03t_Sc2
  PreAgents <- Pre3
  MaxRuns = 3
  MaxFaults = 1
  AgentFaultKinds = {"fail", "garbage", "close"}
  AgentFaultPts = {"ins", "list", "remove", "add"}
  CAFaultKinds = {"err", "panic"}
  HPanicMethods = {"auth", "gen", "name"}
  RemovePick <- MCRemovePick
INVARIANT TypeOK ReplayNeverAuthenticates
PROPERTIES P_C03
CHECK_DEADLOCK FALSE
