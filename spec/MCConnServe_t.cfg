SPECIFICATION Spec
CONSTANTS
  Conns = {1, 2}
  MaxReq = 5
  Shared = FALSE
INVARIANTS TypeOK OwnReply UpOnce OneUp
PROPERTY AllAnswered
CHECK_DEADLOCK FALSE
