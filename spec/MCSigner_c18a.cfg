SPECIFICATION Spec
CONSTANTS
  MaxN = 2
  Templates <- TplC18all
  Bundles <- TlsBundles
  BackoffCfgs <- NoBoCfgs
  Attempts <- BoAttempts
INVARIANT TypeOK Returned NoLateContact
PROPERTIES P_C17 P_C18
CONSTRAINT EmitCase
CHECK_DEADLOCK FALSE
