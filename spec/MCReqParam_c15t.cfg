SPECIFICATION Spec15
CONSTANTS
  LKeys = {"req", "HardKey", "IFVer", "SSHClientVersion", "Touch2SSH", "IsFirefighter", "TouchlessSudoHosts", "TouchlessSudoTime", "other"}
  MaxFields = 3
  IfVers <- MCIfVersT
INVARIANT Total RoundTripSanity
PROPERTIES P_C15 P_Strict15
CHECK_DEADLOCK FALSE
