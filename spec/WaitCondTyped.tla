--------------------------- MODULE WaitCondTyped ---------------------------
(***************************************************************************)
(* Apalache: C20_Step as an action invariant and Partition as a state      *)
(* invariant, proved by induction for 8 waiters (no bound on the length of *)
(* a behaviour, no bound on the number of requests):                       *)
(*   Init => IndInv;  IndInv /\ Next => IndInv';  IndInv /\ Next => C20.   *)
(***************************************************************************)
EXTENDS WaitCond

CInit == /\ Waiters = {"w1", "w2", "w3", "w4", "w5", "w6", "w7", "w8"}
         /\ Codes = {11, 35, 40}
         /\ TableSize = 40 /\ WaitCode = 35 /\ Vias = {TRUE, FALSE}
         /\ MaxReq = 1000000 /\ MaxBatch = 2 /\ Hist = FALSE /\ SplitReg = TRUE
         /\ Deliveries = {"single", "pipelined", "fragmented"} /\ Reps = {1, 255, 256}
         /\ CountHist = TRUE /\ GenBug = FALSE /\ GenMod = 256

CInitAtomic == /\ Waiters = {"w1", "w2", "w3", "w4", "w5", "w6", "w7", "w8"}
               /\ Codes = {11, 35, 40}
               /\ TableSize = 40 /\ WaitCode = 35 /\ Vias = {TRUE, FALSE}
               /\ MaxReq = 1000000 /\ MaxBatch = 2 /\ Hist = FALSE /\ SplitReg = FALSE
               /\ Deliveries = {"single", "pipelined", "fragmented"} /\ Reps = {1, 255, 256}
         /\ CountHist = TRUE /\ GenBug = FALSE /\ GenMod = 256

\* the inductive invariant, typing part in assignment form
IndInv == /\ via \in BOOLEAN
          /\ reg \in [Waiters -> Codes \cup {NoCode}]
          /\ called \in SUBSET Waiters
          /\ released \in SUBSET Waiters
          /\ returned \in SUBSET Waiters
          /\ waiting \in [InRange -> SUBSET Waiters]
          /\ reqlog = <<>>
          /\ parkedAt = [w \in Waiters |-> 0]
          /\ nreq \in 0 .. MaxReq
          /\ hcount \in [InRange -> Nat]
          /\ seen = [w \in Waiters |-> 0]
          /\ last \in [op : {"init", "call", "park", "reg", "race", "request", "return"}, ws : SUBSET Waiters,
                       cs : SUBSET Codes, dl : {"none", "single", "pipelined", "fragmented"}, rep : {0, 1, 255, 256}, rel : SUBSET Waiters, n : 0 .. 8, pan : {FALSE}]
          /\ Partition

StepOK == C20_Step
=============================================================================
