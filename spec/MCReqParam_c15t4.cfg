SPECIFICATION Spec15
CONSTANTS
  LKeys = {"req", "HardKey", "SSHClientVersion", "other"}
  MaxFields = 4
  IfVers = {6, 7}
INVARIANT Total RoundTripSanity
PROPERTIES P_C15 P_Strict15
CHECK_DEADLOCK FALSE
