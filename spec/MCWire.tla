------------------------------ MODULE MCWire ------------------------------
(* Bounded model checking and export for AgentWire. *)
EXTENDS AgentWire, Json
ASSUME DispatchConsistent
\* the concrete codes of every dispatch group (the harness instantiates an abstract code by any code of its group)
GroupOf(c) == CASE c \in StdNoArg -> "stdnoarg" [] c \in StdArg -> "stdarg" [] c = 31 -> "ahc" [] c = 32 -> "slot0"
                [] c \in {33, 34} -> "slot1" [] c = 35 -> "wait" [] OTHER -> "fwd"
Groups == [g \in {"stdnoarg", "stdarg", "ahc", "slot0", "slot1", "wait", "fwd"} |-> {c \in AllCodes : GroupOf(c) = g}]
ASSUME PrintT(<<"GR", ToJson([groups |-> Groups, resp_sizes |-> RespSizes, codes |-> Codes, group_of |-> [c \in Codes |-> GroupOf(c)]])>>)
\* every stream of the bounded model (printed once, from its initial state)
EmitStream == (last.i = 0 /\ status = "running") => PrintT(<<"ST", ToJson(stream)>>)
\* every labelled step of the wire model (for the count of distinct abstract transitions)
EmitW == PrintT(<<"WT", ToJson([pre |-> status, e |-> last', post |-> status'])>>)
\* every tool-output case and every operation/argument case of the rpc model
EmitR == PrintT(<<"RT", ToJson(rlast')>>)
\* the operation / argument cases and the PIV tool outputs of the bounded rpc model
RpcCases == UNION {{[op |-> op, a |-> a] : a \in ArgsOf(op)} : op \in Ops \ {"listslots"}}
ASSUME PrintT(<<"RU", ToJson([cases |-> RpcCases, tools |-> {[text |-> t, exit |-> x] : t \in ToolTexts, x \in {0, 1}},
                              lines |-> LineOf, code_of |-> CodeOf, method_of |-> MethodOf])>>)
WView == <<stream, pos, out, status>>
RView == <<ag, dag, remote, hist>>
=============================================================================
