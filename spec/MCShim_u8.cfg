SPECIFICATION Spec
CONSTANTS
  Keys = {"k1", "k2", "k3"}
  Certs <- U8Certs
  CertKey <- U8CertKey
  V0 <- U8V0
  V1 <- U8V1
  Yss <- U8Yss
  Pass = {"p1", "p2"}
  Modes = {TRUE, FALSE}
  Ops <- OpsMC
  FaultKinds = {"fail", "garbage", "wrongkind", "oversize", "close"}
INVARIANT TypeOK
PROPERTIES P_C07 P_C08 P_C09 P_C10
PROPERTY P_FaultRefines
CHECK_DEADLOCK FALSE
