----------------------------- MODULE TraceAttest -----------------------------
(***************************************************************************)
(* Validation of recorded executions of the real yubiattest / utils code   *)
(* against Attest.  trace.ndjson: line 1 {"ev":"reset"}, then one line per *)
(* call   {"ev":"step","p":"C06"|"C16","tid":..,"e":{case .., "res":{..}}} *)
(* The case part of e is the abstract description of the input (for C06    *)
(* the abstract encoded message, label, chain relation, key type; for C16  *)
(* the shape / bundle / extension value), res is what the code did.  The   *)
(* property step formulas of Attest are evaluated on every line.           *)
(***************************************************************************)
EXTENDS Attest, Json
TraceLog == ndJsonDeserialize("trace.ndjson")
VARIABLE l
tvars == <<c, r, hist, l>>
TraceInit == l = 2 /\ TraceLog[1].ev = "reset" /\ c = 0 /\ r = 0 /\ hist = 0
TraceNext == l <= Len(TraceLog) /\ TraceLog[l].ev = "step" /\ l' = l + 1 /\ UNCHANGED <<c, r, hist>>
TraceSpec == TraceInit /\ [][TraceNext]_tvars
Q16(q) == [q EXCEPT !.eq = S(q.eq)]
Is(p) == TraceLog[l].p = p
Rep(name, F) == F \/ PrintT(<<"REJ", name, l>>)
RepC06 == Rep("TC06", Is("C06") => C06_Step(TraceLog[l].e, TraceLog[l].e.res))
RepStrict06 == Rep("Strict06", Is("C06") => Strict06(TraceLog[l].e, TraceLog[l].e.res))
RepC16 == Rep("TC16", Is("C16") => C16_Step(TraceLog[l].e, Q16(TraceLog[l].e.res)))
RepStrict16 == Rep("Strict16", Is("C16") => Strict16(TraceLog[l].e, Q16(TraceLog[l].e.res)))
TraceAccepted == TLCGet("stats").diameter = Len(TraceLog)
=============================================================================
