SPECIFICATION SpecConc
CONSTANTS
  Codes = {11}
  MaxItems = 1
  Faults = FALSE
  RKeys = {"k1"}
  RPass = {"p1"}
  MaxHist = 0
  BigResp = FALSE
  MaxConns = 2
  MaxCItems = 2
  MaxLines = 0
INVARIANT CTypeOK Inv_Conn
PROPERTIES P_C12Conc
CHECK_DEADLOCK FALSE
