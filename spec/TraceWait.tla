----------------------------- MODULE TraceWait -----------------------------
(***************************************************************************)
(* Validation of recorded executions of the real code against WaitCond.    *)
(* Every line of trace.ndjson is                                           *)
(*   {"ev":"reset","post":S}                 a new trace (fresh server)    *)
(*   {"ev":"step","pre":S,"e":L,"post":S'}   one driven step, observed     *)
(* S = {via, reg:[[w,c],..], park:[w,..], done:[w,..]}: the code every     *)
(* waiter asked for, the waiters whose Wait call has not returned, those   *)
(* whose call has returned.  L = {op, ws, cs, rel, n, pan, byc}: n is the  *)
(* number of goroutines the harness read from the notify lists of all      *)
(* table entries after the step, byc the same per code.                    *)
(* A step is accepted only if its pre-state is the state reached so far;   *)
(* C20_Step is evaluated on every accepted step.                           *)
(***************************************************************************)
EXTENDS WaitCond, Json

TrCodes == 0 .. 255
TraceLog == ndJsonDeserialize("trace.ndjson")
VARIABLE l
tvars == <<vars, l>>
S(x) == {x[i] : i \in DOMAIN x}
RegOf(s)  == [w \in Waiters |-> IF \E i \in DOMAIN s.reg : s.reg[i][1] = w
                                THEN s.reg[CHOOSE i \in DOMAIN s.reg : s.reg[i][1] = w][2] ELSE NoCode]
WaitOf(s) == LET r == RegOf(s) IN [c \in InRange |-> {w \in S(s.park) \cap Waiters : r[w] = c}]
Lab(x) == [op |-> x.op, ws |-> S(x.ws), cs |-> S(x.cs), dl |-> x.dl, rep |-> x.rep, rel |-> S(x.rel), n |-> x.n, pan |-> x.pan]
Load(s) == /\ via' = s.via /\ reg' = RegOf(s) /\ called' = {} /\ waiting' = WaitOf(s)
           /\ released' = {} /\ returned' = S(s.done) /\ UNCHANGED hist
Same(s) == /\ via = s.via /\ reg = RegOf(s) /\ waiting = WaitOf(s) /\ returned = S(s.done)
TraceInit == /\ l = 2 /\ TraceLog[1].ev = "reset"
             /\ via = TraceLog[1].post.via /\ reg = RegOf(TraceLog[1].post) /\ called = {}
             /\ waiting = WaitOf(TraceLog[1].post) /\ released = {} /\ returned = S(TraceLog[1].post.done)
             /\ reqlog = <<>> /\ parkedAt = [w \in Waiters |-> 0] /\ nreq = 0
             /\ hcount = [c \in InRange |-> 0] /\ seen = [w \in Waiters |-> 0]
             /\ last = L("reset", {}, {}, {}, 0)
Reset == /\ l <= Len(TraceLog) /\ TraceLog[l].ev = "reset" /\ Load(TraceLog[l].post)
         /\ last' = L("reset", {}, {}, {}, 0) /\ l' = l + 1
Step == /\ l <= Len(TraceLog) /\ TraceLog[l].ev = "step"
        /\ Same(TraceLog[l].pre)
        /\ Load(TraceLog[l].post)
        /\ last' = Lab(TraceLog[l].e) /\ l' = l + 1
TraceNext == Reset \/ Step
TraceSpec == TraceInit /\ [][TraceNext]_tvars

IsStep == last'.op # "reset"
TC20 == [][IsStep => C20_Step]_tvars
\* strict conformance with the design: every parked waiter sits on the table entry of its own code
CntOf(b, c) == IF \E i \in DOMAIN b : b[i][1] = c THEN b[CHOOSE i \in DOMAIN b : b[i][1] = c][2] ELSE 0
StrictOK == LET b == TraceLog[l].e.byc IN
            /\ \A c \in InRange : Cardinality(waiting'[c]) = CntOf(b, c)
            /\ \A i \in DOMAIN b : b[i][1] \in InRange
Rep(name, F) == F \/ PrintT(<<"REJ", name, l>>)
RepC20 == Rep("TC20", IsStep => C20_Step)
RepStrict == Rep("Strict", IsStep => StrictOK)
TraceAccepted == TLCGet("stats").diameter = Len(TraceLog)
=============================================================================
