---------------------------- MODULE MCReqParam ----------------------------
EXTENDS ReqParam, Json
MCIfVersT == {-1, 0, 6, 7, 9}
\* export of every walked case with the model's expectation (direction A)
EmitCase == PrintT(<<"CASE", ToJson([k |-> cs.k, c |-> cs.c, xok |-> last'.xok])>>)
=============================================================================
