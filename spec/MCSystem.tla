------------------------------ MODULE MCSystem ------------------------------
(* Bounded scenario sets of System.tla (quick / thorough) and the export of every finished execution as a replayable
   case.  The complete product of all dimensions is far too large and almost entirely redundant (a process that ends at
   stage n never looks at the inputs of later stages), so the sets are unions of FULL products within a stage and of
   pairs of stages, around a base scenario in which everything is good. *)
EXTENDS System, Json

EP(id, out, k) == [id |-> id, out |-> out, k |-> k]
G1 == EP("genuine", "sign", 1)
G2 == EP("genuine", "sign", 2)
Dir(lp, lb) == [lp |-> lp, lb |-> lb]

Base == [cmd |-> "json", hard |-> FALSE, algo |-> 1, lnset |-> TRUE, conn |-> "v4", pol |-> "NONS", ntok |-> 3, sock |-> "ok",
         logf |-> "ok", cfile |-> "ok", hsec |-> "present", ids |-> <<0, 1, 3>>, val |-> 600, eps |-> <<G1>>, epform |-> "list",
         tls |-> "ok", rt |-> "normal", dir |-> Dir("U", "none"), pa |-> "user", ans |-> "honest", die |-> 0, dk |-> "close",
         lnv |-> "ln", ru |-> "ru", rh |-> "rh", ip |-> "ip", tid |-> "t"]

\* (i) process environment
CmdForms == {<<"json", h, a>> : h \in BOOLEAN, a \in {0, 1, 3}} \cup {<<"legacy", h, 0>> : h \in BOOLEAN}
            \cup {<<c, FALSE, 1>> : c \in {"missing", "null", "garbage", "badver"}}
Argvs == {<<"NONS", 3>>, <<"NONS", 5>>, <<"NONS", 6>>, <<"NSOK", 3>>, <<"NSOK", 5>>, <<"bad", 3>>, <<"bad", 5>>, <<"NONS", 2>>, <<"NONS", 7>>}
LnConn == {<<l, c>> : l \in BOOLEAN, c \in {"v4", "v6", "bad"}}
Socks == {"ok", "unset", "dead", "gpg"}
WithCmd(s, c) == [s EXCEPT !.cmd = c[1], !.hard = c[2], !.algo = c[3]]
WithArgv(s, a) == [s EXCEPT !.pol = a[1], !.ntok = a[2]]
WithLC(s, x) == [s EXCEPT !.lnset = x[1], !.conn = x[2]]

EnvPairs == {WithArgv(WithCmd(Base, c), a) : c \in CmdForms, a \in Argvs}
       \cup {WithLC(WithCmd(Base, c), x) : c \in CmdForms, x \in LnConn}
       \cup {[WithArgv(Base, a) EXCEPT !.sock = so] : a \in Argvs, so \in Socks}
       \cup {[WithLC(Base, x) EXCEPT !.sock = so] : x \in LnConn, so \in Socks}
EnvFull == {[WithLC(WithArgv(WithCmd(Base, c), a), x) EXCEPT !.sock = so] : c \in CmdForms, a \in Argvs, x \in LnConn, so \in {"ok", "unset", "dead"}}

\* (ii) files and configuration
IdMaps == {<<0, 1, 3>>, <<1, 3>>, <<3>>, <<>>}
HSecs == {"present", "absent", "undecodable", "unknownonly"}
ConfQ == {[Base EXCEPT !.hsec = h, !.ids = m, !.algo = a] : h \in HSecs, m \in IdMaps, a \in {0, 1, 3}}
    \cup {[Base EXCEPT !.tls = t, !.hsec = h] : t \in {"ok", "nocert", "noca"}, h \in HSecs}
    \cup {[Base EXCEPT !.logf = l, !.cfile = c] : l \in {"ok", "nodir"}, c \in {"ok", "missing", "badjson"}}
    \cup {[Base EXCEPT !.val = v, !.rt = t] : v \in {600, 43200}, t \in {"normal", "default"}}
    \cup {[WithCmd(Base, c) EXCEPT !.cfile = f] : c \in {<<"garbage", FALSE, 1>>, <<"json", TRUE, 1>>}, f \in {"missing", "badjson"}}
    \cup {[Base EXCEPT !.sock = so, !.tls = t] : so \in {"unset", "dead"}, t \in {"nocert", "noca"}}
ConfFull == {[Base EXCEPT !.hsec = h, !.ids = m, !.algo = a, !.tls = t, !.val = v, !.pa = p] :
                h \in HSecs, m \in IdMaps, a \in {0, 1, 3}, t \in {"ok", "nocert", "noca"}, v \in {600, 43200}, p \in {"user", "old"}}

\* (v) CA endpoints
EPq == {EP(i, "sign", k) : i \in {"genuine", "foreign", "selfsigned"}, k \in {1, 2}}
       \cup {EP(i, o, 0) : i \in {"genuine", "foreign", "selfsigned"}, o \in {"rpc", "unparsable"}}
EPt == EPq \cup {EP("hosttrusted", "sign", 1), EP("hosttrusted", "sign", 2), EP("hosttrusted", "rpc", 0), EP("hosttrusted", "unparsable", 0)}
Lists(X, n) == UNION {[1..m -> X] : m \in 1..n}       \* non-empty lists; the empty list has two forms (epform)
EpsQ == {[Base EXCEPT !.eps = l, !.pa = "old"] : l \in Lists(EPq, 2)}
   \cup {[Base EXCEPT !.eps = l] : l \in Lists(EPq, 1)}
   \cup {[Base EXCEPT !.eps = <<>>, !.epform = f, !.pa = p] : f \in {"absent", "empty"}, p \in {"user", "old"}}
EpsFull == {[Base EXCEPT !.eps = l, !.pa = p] : l \in Lists(EPt, 2), p \in {"user", "old"}}
      \cup {[Base EXCEPT !.eps = <<>>, !.epform = f, !.pa = p] : f \in {"absent", "empty"}, p \in {"user", "old"}}

\* (iii), (iv) registered-key directory, forwarded agent
FileCls == {"none", "U", "O", "bad"}
Answers == {"honest", "otherkey", "fail", "close", "wrongkind"}
AgentQ == {[Base EXCEPT !.dir = Dir(a, b), !.pa = p] : a \in FileCls, b \in FileCls, p \in {"user", "nokey"}}
     \cup {[Base EXCEPT !.dir = d, !.pa = p, !.ans = a] : d \in {Dir("U", "none"), Dir("none", "U")}, p \in {"user", "old", "nokey"}, a \in Answers}
AgentFull == {[Base EXCEPT !.dir = Dir(a, b), !.pa = p, !.ans = an] : a \in FileCls, b \in FileCls, p \in {"user", "old", "nokey"}, an \in Answers}
\* the agent connection dies at request 1..8 (challenge, key insertion, list, removals, additions)
DieQ == {[Base EXCEPT !.die = d, !.dk = k, !.pa = p, !.eps = l] : d \in 1..8, k \in {"close", "fail"}, p \in {"user", "old"},
                                                                   l \in {<<G1>>, <<G2>>, <<EP("genuine", "rpc", 0), G2>>}}
\* an endpoint that does not answer, with a generous and with a tight request timeout
H == EP("genuine", "hang", 0)
HangQ == {[Base EXCEPT !.eps = l, !.rt = t, !.pa = p] : l \in {<<H>>, <<H, G1>>, <<G2, H>>, <<H, H>>, <<EP("foreign", "hang", 0), G1>>},
                                                        t \in {"normal", "tight"}, p \in {"user", "old"}}
DieFull == DieQ \cup {[Base EXCEPT !.die = d, !.dk = k, !.pa = "old", !.eps = l, !.algo = a, !.ids = <<1>>] :
                         d \in 1..8, k \in {"close", "fail"}, l \in {<<G2>>, <<EP("foreign", "sign", 1)>>}, a \in {1, 3}}
\* refusals of the handler combined with everything a later stage would need
Refuse == {[WithArgv(WithCmd(Base, c), a) EXCEPT !.pa = p, !.eps = l] : c \in {<<"json", TRUE, 1>>, <<"json", FALSE, 1>>, <<"legacy", TRUE, 0>>},
              a \in {<<"NONS", 3>>, <<"NSOK", 3>>, <<"NSOK", 5>>}, p \in {"user", "old"}, l \in {<<G2>>, <<EP("foreign", "sign", 1), G1>>}}

ScQuick == EnvPairs \cup ConfQ \cup EpsQ \cup EpsFull \cup AgentQ \cup AgentFull \cup DieQ \cup HangQ \cup Refuse
ScThorough == ScQuick \cup EnvFull \cup ConfFull \cup DieFull

\* one (arbitrary) removal order is enough for the bounded runs: which R-labelled identity goes first is not observable
\* in the abstract post-state
MCRemovePick(T) == {CHOOSE x \in T : TRUE}

Emit == Done => PrintT(<<"CASE", ToJson([sc |-> sc, r |-> r, pre |-> pre.ag, post |-> ag])>>)
=============================================================================
