------------------------------ MODULE MCDaemon ------------------------------
\* Bounded configurations of Daemon: request sets, initial contents of the underlying agent, export of the
\* labelled transition system of whole operations (sequential relation) for replay on the real daemon.
EXTENDS Daemon, ShimUniverses, Json

DaemonShimOps == {"list", "sign", "add", "remove", "removeall", "lock", "unlock", "addhard", "forward", "tick"}
DaemonShimOpsNoTick == DaemonShimOps \ {"tick"}

rList      == Rq("list", "", 11, "")
rSign(i)   == Rq("sign", i, 13, "")
rAdd(i, b) == Rq("add", i, b, "")
rRemove(i) == Rq("remove", i, 18, "")
rRemoveAll == Rq("removeall", "", 19, "")
rLock(p)   == Rq("lock", p, 22, "")
rUnlock(p) == Rq("unlock", p, 23, "")
rHard(i, enc) == Rq("addhard", i, 31, enc)
rSlots     == Rq("listslots", "", 32, "")
rWait(b)   == Rq("wait", "", b, "")
rFwd(b)    == Rq("forward", "ext", b, "")
rBad(b)    == Rq("badreq", "", b, "")
rJunk(cl, b) == Rq("junk", cl, b, "")

\* --- sequential relation, exported and replayed transition by transition
\* shim state across connections (D1, D3, D4): 2 connections, every state-changing operation, both encodings
ReqsState == {rList, rSign("k1"), rSign("c1"), rSign("c2"), rAdd("k2", 17), rAdd("c2", 25), rRemove("c1"), rRemove("k1"), rRemoveAll,
              rLock("p1"), rUnlock("p1"), rUnlock("p2"), rHard("c1", "new"), rHard("c2", "old"), rHard("c3", "new"),
              rHard("k1", "old"), rSlots, rFwd(200), rBad(13)}
\* waiting, garbage, departures (D2, D5): 3 connections, a shim that only lists / signs / locks
ReqsWait == {rList, rSign("k1"), rLock("p1"), rUnlock("p1"), rWait(11), rWait(13), rWait(35), rWait(200), rFwd(200), rFwd(27), rBad(13),
             rJunk("ahc", 31), rJunk("w35", 35), rJunk("c25", 25), rJunk("empty", NoByte), rJunk("oversize", NoByte),
             rJunk("midframe", 11), rJunk("midhdr", NoByte), rDrop}
ReqsWaitQ == ReqsWait \ {rLock("p1"), rUnlock("p1"), rFwd(27), rJunk("c25", 25), rJunk("oversize", NoByte), rJunk("midhdr", NoByte), rWait(13)}
\* thorough: everything at once on 2 connections
ReqsAll == ReqsState \cup ReqsWait

InitK12 == {{"k1", "k2"}}
InitMix == {{"k1", "k2"}, {"k1"}, {"k1", "c3"}}

\* --- micro-step relation (interleavings)
ReqsMicroLock == {rList, rSign("c1"), rLock("p1"), rUnlock("p1"), rHard("c1", "new"), rRemove("c1")}
ReqsMicroWait == {rList, rWait(11), rWait(35), rWait(200), rJunk("w35", 35), rJunk("midframe", 11), rFwd(200)}
ReqsMicroTiny == {rList, rWait(11), rWait(35), rJunk("w35", 35)}

\* export
ConnProj(s) == [c \in Conns |-> [c |-> c, s |-> IF s.hs[c] = "parked" THEN (IF s.open[c] THEN "parked" ELSE "zombie")
                                        ELSE IF s.open[c] THEN "idle" ELSE "closed",
                                 w |-> IF s.hs[c] = "parked" THEN s.cur[c].rq.code ELSE NoByte]]
St(u, ul, up, m, l, n, k) == [u |-> u, ul |-> ul, up |-> up, m |-> m, c |-> {}, l |-> l, nu |-> FALSE, n |-> n, d |-> FALSE, fv |-> {}, k |-> k]
Cur == St(under, ulocked, upass, mem, locked, now, ConnProj(cs))
Nxt == St(under', ulocked', upass', mem', locked', now', ConnProj(cs'))
UniverseJson == [keys |-> Keys, pass |-> Pass, conns |-> Conns,
                 certs |-> [c \in Certs |-> [key |-> CertKey[c], v0 |-> c \in V0, v1 |-> c \in V1, yss |-> c \in Yss]]]
ASSUME PrintT(<<"UN", ToJson(UniverseJson)>>)
\* reachability witnesses (each must be VIOLATED, otherwise the cross-connection formulas never bite)
NoCrossUnlock == ~(Hd /\ e.op = "unlock" /\ e.res.ok /\ hv.locker # a.c)
NoCrossUse    == ~(Hd /\ e.op \in {"sign", "list"} /\ e.res.ok /\ \E h \in mem' : hv.adder[h] # a.c /\ (e.arg = h \/ h \in e.res.l1))
NoCrossRelease == ~(a.k \in {"op", "recv"} /\ a.rel \ {a.c} # {})
WitSet == (IF NoCrossUnlock THEN {} ELSE {"unlock"}) \cup (IF NoCrossUse THEN {} ELSE {"use"}) \cup (IF NoCrossRelease THEN {} ELSE {"release"})
EmitT == PrintT(<<"TR", ToJson([f |-> Cur, a |-> [k |-> ev'.k, c |-> ev'.c, rq |-> ev'.rq], t |-> Nxt, w |-> WitSet])>>)
EmitI == (ev.k = "init") => PrintT(<<"IN", ToJson(Cur)>>)
=============================================================================
