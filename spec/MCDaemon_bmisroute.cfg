SPECIFICATION DSpec
CONSTANTS
  Keys = {"k1", "k2"}
  Certs <- U3Certs
  CertKey <- U3CertKey
  V0 <- U3V0
  V1 <- U3V1
  Yss <- U3Yss
  Pass = {"p1", "p2"}
  Modes = {FALSE}
  Ops <- DaemonShimOpsNoTick
  FaultKinds = {}
  Conns = {1, 2}
  TableSize = 40
  WaitCode = 35
  Reqs <- ReqsMicroTiny
  MaxSend = 3
  MaxPipe = 1
  InitUnder <- InitK12
  Broken = "misroute"
VIEW DViewNoHist
INVARIANTS D1_Order
PROPERTIES P_D1
CHECK_DEADLOCK FALSE
