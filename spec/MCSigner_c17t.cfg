SPECIFICATION Spec
CONSTANTS
  MaxN = 4
  Templates <- TplC17t
  Bundles <- NoBundle
  Ctxs <- Wide
  Reqs <- FullReq
  Calls <- OneCall
  Tries <- One
  Hists <- NoHist
  BackoffCfgs <- BoCfgs
  Attempts <- BoAttempts
INVARIANT TypeOK Returned NoLateContact NoEmptySuccess
PROPERTIES P_C17 P_C18 P_Strict
CONSTRAINT EmitCase
CHECK_DEADLOCK FALSE
