SPECIFICATION SpecWire
CONSTANTS
  Codes = {0, 1, 11, 13, 17, 18, 19, 22, 23, 25, 30, 31, 32, 33, 34, 35, 36, 39, 40, 255}
  MaxItems = 3
  Faults = TRUE
  RKeys = {"k1"}
  RPass = {"p1"}
  MaxHist = 0
  BigResp = FALSE
  MaxConns = 2
  MaxCItems = 0
  MaxLines = 0
INVARIANT WTypeOK Inv_NoCrash Inv_Count Inv_End Inv_Stream
PROPERTIES P_C12
CONSTRAINT EmitStream
CHECK_DEADLOCK FALSE
