------------------------------- MODULE Signer -------------------------------
(***************************************************************************)
(* crypki.Signer: ordered fail-over over the configured CA endpoints        *)
(* (properties C17, C18) and the retry delay function internal/backoff.     *)
(*                                                                         *)
(* A case is a configuration: the endpoint list `eps` (0..MaxN endpoint     *)
(* descriptors) and the CA bundle.  A descriptor says who answers at that   *)
(* endpoint:                                                                *)
(*   id    TLS identity of the server: "plain" (no transport security, the  *)
(*         in-memory connections of the C17 harness), "ca1"/"ca2" (its      *)
(*         certificate names the endpoint and is issued by that CA),        *)
(*         "foreign" (issued by a CA that is not configured), "selfsigned", *)
(*         "expired", "wrongname" (both issued by CA1), "hosttrusted"       *)
(*         (right name, valid, issued by a CA that is in the trust store of *)
(*         the RA's host but not in the configured bundle)                  *)
(*   vmax  highest protocol version the server offers: "tls13", "tls12",    *)
(*         "tls11" (= offers TLS 1.0/1.1 only)                              *)
(*   pol   client-certificate policy of the server: "ignore" (asks for      *)
(*         none), "request", "requireany" (demands one, does not verify it  *)
(*         in the TLS layer), "verifyifgiven", "require" (demands one and   *)
(*         verifies it)                                                     *)
(*   hint  the acceptable-CA names the server advertises with its request   *)
(*         (= its client-CA pool): "own" (contains the issuer of the RA's   *)
(*         certificate), "empty", "other" (non-empty, without that issuer,  *)
(*         e.g. after a client-CA rotation); a verifying server whose pool  *)
(*         lacks the issuer rejects the RA                                  *)
(*   (formerly: "require" (require and verify),                             *)
(*         "request", "ignore"                                              *)
(*   cls   what the Signing service behind it does: "ok" (replies with      *)
(*         Len(certs) certificates), "rpc" (status error `code`),           *)
(*         "unparsable", "empty" (key material), "deadline" (never answers),*)
(*         "refused" (nothing listens: the connection attempt is refused),  *)
(*         "acceptclose" (the connection is accepted and closed at once):   *)
(*         the last two are dead at transport level, no RPC ever arrives    *)
(*         (comment shapes "L<n>": the reply line of that certificate is   *)
(*         exactly n bytes long, n around 64 KiB, 128 KiB, 1 MiB)          *)
(*   certs, cm   the certificates of an "ok" reply, in the CA's order, and  *)
(*         the comment the CA attached to each (possibly empty)             *)
(* The environment of a case (variable env):                               *)
(*   ctx   budget of the request context handed to Sign: "wide" (longer     *)
(*         than anything an endpoint can consume) or "tight" (shorter than  *)
(*         one per-try timeout; only explored when no endpoint is of class  *)
(*         "deadline", i.e. when every failing endpoint fails fast) or      *)
(*         "none" (no deadline at all and no per-try timeout; explored      *)
(*         under the same condition: Sign must still return) or "ample"     *)
(*         (bounded, at least 3 times what all retry sequences of the      *)
(*         endpoints of the list take together; same condition)            *)
(*         Contexts that end early: "cancelled" / "expired" (already done   *)
(*         when Sign is entered), "expiredwarm" (the same Signer served a   *)
(*         call under this context, then the deadline passed, then Sign is  *)
(*         entered again), "cancelmid" (cancelled while the first endpoint  *)
(*         of class "deadline" is being tried).  From then on nobody can    *)
(*         answer; the call must return an error - never an empty success - *)
(*         and need not contact anybody.                                    *)
(*   req   content class of the signing request: "full", or with one part   *)
(*         absent / degenerate: "noext" (Extensions nil), "emptyext",       *)
(*         "customext", "nocrit" (CriticalOptions nil), "emptycrit",        *)
(*         "noprins", "oneprin", "zeroval", "maxval", "nokeymeta", "bare".   *)
(*         Whatever it is, every contacted endpoint receives it unmodified  *)
(*         (label field same) and the caller's message is unchanged when    *)
(*         Sign returns (label field kept).                                 *)
(*   Validity boundaries of the server certificate (all issued by CA1 for   *)
(*   the right name): "expired1m" / "expired4m" / "expired10m" (NotAfter     *)
(*   that long ago), "notyet1m" / "notyet4m" (NotBefore that far ahead) are  *)
(*   not valid now - impostors; "valid2m" (NotAfter two minutes ahead) is.   *)
(*   A bundle may hold two DIFFERENT CA certificates with the same subject  *)
(*   name ("ca1" and "ca1b": a CA rolled over to a new key): a server      *)
(*   chaining to either is genuine iff that certificate is configured.      *)
(*   next  outcome vector of a SECOND signing call on the same Signer       *)
(*         (<<>> = there is none): after the first call has returned, the   *)
(*         endpoints behave as next says (one that failed may have          *)
(*         recovered) and Sign is called again (action NextCall).  Every    *)
(*         call is judged by the same formulas against ITS vector: contacts *)
(*         in the configured order, result from its first good endpoint.   *)
(*   tries number of tries the retry interceptor makes per endpoint (with   *)
(*         a backoff delay between them); several tries at one endpoint    *)
(*         are one contact                                                  *)
(*   hist  what ELSE happens to TLS configuration in the same process:      *)
(*         "none"; "before"/"between" (another client configuration is      *)
(*         built from the CA files NOT in this signer's bundle, before the  *)
(*         signer is constructed / between construction and Sign);          *)
(*         "signer" (a second Signer with those files is constructed        *)
(*         first); "rotate" (the bundle's file paths first held those other *)
(*         CAs and were loaded by another configuration, then got their     *)
(*         proper content before the signer is constructed)                 *)
(*   loaded  history variable: CA names any TLS configuration of the        *)
(*         process has read so far.  The design and the properties do not   *)
(*         depend on it - that is the point (history independence).         *)
(* Actions: OtherConf (the history step), Construct (NewSigner), Contact (one loop iteration of Sign: the  *)
(* next endpoint is dialled and asked), Return (Sign returns), Backoff (one  *)
(* evaluation of the delay function over all its jitter draws).             *)
(*                                                                         *)
(* The properties are step formulas over (vars, last'): model-checked as    *)
(* [][Cxx_Step]_vars over ALL configurations of the bounded model, and      *)
(* evaluated on every recorded step of the real code in TraceSigner.tla.    *)
(***************************************************************************)
EXTENDS Integers, Sequences, FiniteSets, TLC

CONSTANTS MaxN,         \* longest endpoint list explored
          Templates,    \* endpoint descriptors explored (records without certs/cm, with comment shapes sh)
          Bundles,      \* CA bundle variants explored: records [cas |-> set of CA names, lay |-> file layout]
          Ctxs,         \* request-context budgets explored: subset of {"wide", "tight", "none", "ample"}
          Reqs,         \* request content classes explored
          Calls,        \* numbers of signing calls per Signer explored (subset of {1, 2})
          Tries,        \* tries per endpoint explored (subset of 1..3)
          Hists,        \* process histories explored: subset of {"none", "before", "between", "signer", "rotate"}
          BackoffCfgs,  \* backoff configurations explored: records [base, max, mult, jit] (jit in tenths)
          Attempts      \* attempt numbers explored by the backoff walk

VARIABLES eps,        \* configured endpoints (sequence of descriptors), fixed per case
          bundle,     \* configured CA bundle, fixed per case
          env,        \* [ctx, hist, loaded, hdone]: request budget, process history (see above)
          pc,         \* "new" | "loop" | "returned" | "refused" | "bo" | "trace"
          i,          \* index of the endpoint the loop tries next
          contacted,  \* endpoint indices contacted so far, in order of arrival at the servers
          result,     \* what the loop holds: [done, err, certs, cm]
          last        \* label of the last step (operation and what was observed)

vars == <<eps, bundle, env, pc, i, contacted, result, last>>

---------------------------------------------------------------------------
\* numbers of the delay function: nanoseconds split so that TLC's 32-bit integers suffice
\* value = (-1)^neg * (hi * 10^9 + lo); big = magnitude of 2^31 seconds or more (hi, lo meaningless)
Val(x)   == [neg |-> x < 0, big |-> FALSE, hi |-> 0, lo |-> IF x < 0 THEN 0 - x ELSE x]
VLe(a,b) == a.neg \/ (~b.neg /\ ~a.big /\ (b.big \/ a.hi < b.hi \/ (a.hi = b.hi /\ a.lo <= b.lo)))
NoBo     == [att0 |-> FALSE, base |-> Val(0), min |-> Val(0), max |-> Val(0), bound |-> Val(0)]

NoLbl == [op |-> "init", hang |-> FALSE, kept |-> TRUE, ep |-> 0, hs |-> "none", ver |-> "none", cc |-> "none", rpc |-> FALSE, same |-> TRUE,
          err |-> FALSE, pan |-> FALSE, certs |-> <<>>, cm |-> <<>>, bo |-> NoBo]

---------------------------------------------------------------------------
\* transport security, design level: what the TLS client of the RA does with the server it reaches.
\* Client: RootCAs = exactly the configured bundle, ServerName = the endpoint name, versions {1.2, 1.3}.
TimeBad       == {"expired", "expired1m", "expired4m", "expired10m", "notyet1m", "notyet4m"}   \* now is outside the validity period
Issuer(e)     == CASE e.id \in {"ca1", "wrongname", "valid2m"} \cup TimeBad -> "ca1" [] e.id = "ca2" -> "ca2"
                   [] e.id = "ca1b" -> "ca1b" [] e.id = "foreign" -> "caX" [] e.id = "hosttrusted" -> "caH" [] OTHER -> "self"
ServerVers(e) == CASE e.vmax = "tls13" -> {10, 11, 12, 13} [] e.vmax = "tls12" -> {10, 11, 12} [] OTHER -> {10, 11}
ClientVers    == {12, 13}
Negotiated(e) == ClientVers \cap ServerVers(e)                \* the highest common version is used
VerifyPeer(e, b) == /\ Issuer(e) \in b.cas                      \* chain building ends in a configured root (host roots are not used)
                    /\ e.id \notin TimeBad                      \* validity period, evaluated at the current time
                    /\ e.id # "wrongname"                       \* subject alternative names cover the endpoint
\* Client certificate: whenever the server asks, the client sends the configured certificate (whatever CA names the
\* server hints at); a server that verifies client certificates accepts it iff its pool holds the issuer.
AsksCert(e)     == e.pol # "ignore"
HintOf(e)       == IF "hint" \in DOMAIN e THEN e.hint ELSE "own"
ServerTakes(e)  == e.pol \in {"verifyifgiven", "require"} => HintOf(e) = "own"
Handshake(e, b) == e.id = "plain" \/ (Negotiated(e) # {} /\ VerifyPeer(e, b) /\ ServerTakes(e))

\* transport security, property level (C18): who is a genuine CA server
Genuine(e, b)     == \/ e.id \in {"ca1", "ca2", "ca1b"} /\ e.id \in b.cas
                     \/ e.id = "valid2m" /\ "ca1" \in b.cas          \* still valid, however soon it expires   \* issued by a configured CA for this endpoint, valid now
HandshakeOk(e, b) == e.id = "plain" \/ (Genuine(e, b) /\ e.vmax \in {"tls12", "tls13"} /\ ServerTakes(e))
\* request contexts that end before anybody may have answered
AtEntry       == env.ctx \in {"cancelled", "expired", "expiredwarm"}
Deadlines     == {m \in 1..Len(eps) : eps[m].cls = "deadline"}
FirstDeadline == IF Deadlines = {} THEN Len(eps) + 1 ELSE CHOOSE m \in Deadlines : \A x \in Deadlines : m <= x
CutKind       == AtEntry \/ env.ctx = "cancelmid"
DoneAt(m)     == AtEntry \/ (env.ctx = "cancelmid" /\ FirstDeadline <= m)   \* the context is done while endpoint m is tried
\* an endpoint "answers successfully"
Good(e, b) == HandshakeOk(e, b) /\ e.cls = "ok"
Goods      == {m \in 1..Len(eps) : Good(eps[m], bundle) /\ ~DoneAt(m)}   \* nobody answers a request whose context is done
FirstGood  == IF Goods = {} THEN 0 ELSE CHOOSE m \in Goods : \A x \in Goods : m <= x
Upto(n)    == [m \in 1..n |-> m]

---------------------------------------------------------------------------
\* the design
Pending == [done |-> FALSE, err |-> TRUE, certs |-> <<>>, cm |-> <<>>]   \* "no endpoint produced a result" is an error

\* instantiate a template at position m: certificate and comment names are position-bound
Inst(t, m) == [id |-> t.id, vmax |-> t.vmax, pol |-> t.pol, hint |-> t.hint, cls |-> t.cls, code |-> t.code, sh |-> t.sh,
               certs |-> [j \in 1..Len(t.sh) |-> "c" \o ToString(m) \o "_" \o ToString(j)],
               cm    |-> [j \in 1..Len(t.sh) |-> IF t.sh[j] = "none" THEN "" ELSE t.sh[j] \o ToString(m) \o "_" \o ToString(j)]]

AllCAs    == {"ca1", "ca2", "caX"}
Others(b) == AllCAs \ b.cas                        \* the CA files a history step loads: everything this signer must NOT trust
NoEnv     == [next |-> <<>>, ctx |-> "wide", req |-> "full", tries |-> 1, hist |-> "none", loaded |-> {}, hdone |-> TRUE]
InitCase == /\ bundle \in Bundles
            /\ \E n \in 0..MaxN : \E ts \in [1..n -> Templates] : eps = [m \in 1..n |-> Inst(ts[m], m)]
            /\ \E c \in Ctxs : \E h \in Hists : \E t \in Tries : \E q \in Reqs : \E k \in Calls :
                 \E ts2 \in (IF k = 2 /\ Len(eps) > 0 THEN [1..Len(eps) -> Templates] ELSE {<<>>}) :
                   env = [ctx |-> c, req |-> q, tries |-> t, hist |-> h, loaded |-> {}, hdone |-> (h = "none" /\ c # "expiredwarm"),
                          next |-> [m \in 1..Len(ts2) |-> Inst(ts2[m], m)]]
            /\ env.next # <<>> => (env.ctx = "wide" /\ env.hist = "none")
            /\ env.ctx \in {"cancelled", "expired", "expiredwarm", "cancelmid"} => (env.hist = "none" /\ env.tries = 1)
            /\ env.ctx = "cancelmid" => \E m \in 1..Len(eps) : eps[m].cls = "deadline"
            /\ env.ctx \in {"tight", "none", "ample", "expiredwarm"} => (env.hist = "none" /\ \A m \in 1..Len(eps) : eps[m].cls # "deadline")
            /\ pc = "new" /\ i = 1 /\ contacted = <<>> /\ result = Pending /\ last = NoLbl
InitBo   == /\ BackoffCfgs # {} /\ bundle = [cas |-> {}, lay |-> "none"] /\ env = NoEnv /\ eps = <<>> /\ pc = "bo" /\ i = 1
            /\ contacted = <<>> /\ result = Pending /\ last = NoLbl
Init == InitCase \/ InitBo

\* the history step: some other TLS configuration of the process reads the other CA files
OtherConf == /\ ~env.hdone
             /\ \/ env.hist \in {"before", "signer", "rotate"} /\ pc = "new"
                \/ env.hist = "between" /\ pc = "loop" /\ contacted = <<>>
             /\ env' = [env EXCEPT !.hdone = TRUE, !.loaded = @ \cup Others(bundle)]
             /\ last' = [NoLbl EXCEPT !.op = "otherconf"]
             /\ UNCHANGED <<eps, bundle, pc, i, contacted, result>>

\* NewSigner: may refuse a configuration without endpoints (then no signing call exists), never another one
\* an earlier signing call of the same Signer under the same context (its outcome is not the subject of this case)
PriorCall == /\ ~env.hdone /\ env.ctx = "expiredwarm" /\ pc = "loop" /\ contacted = <<>>
             /\ env' = [env EXCEPT !.hdone = TRUE]
             /\ last' = [NoLbl EXCEPT !.op = "priorcall"]
             /\ UNCHANGED <<eps, bundle, pc, i, contacted, result>>

Construct == /\ pc = "new" /\ (env.hdone \/ env.hist = "between" \/ env.ctx = "expiredwarm")
             /\ \/ pc' = "loop" /\ last' = [NoLbl EXCEPT !.op = "construct"]
                \/ Len(eps) = 0 /\ pc' = "refused" /\ last' = [NoLbl EXCEPT !.op = "construct", !.err = TRUE]
             /\ env' = [env EXCEPT !.loaded = @ \cup bundle.cas]
             /\ UNCHANGED <<eps, bundle, i, contacted, result>>

Dead(e) == e.cls \in {"refused", "acceptclose"}      \* dead at transport level
Contact == /\ pc = "loop" /\ ~result.done /\ i <= Len(eps) /\ env.hdone
           /\ LET e  == eps[i]
                  hs == Handshake(e, bundle)
                  ok == hs /\ e.cls = "ok" /\ ~DoneAt(i)
              IN /\ \/ contacted' = Append(contacted, i)
                    \/ DoneAt(i) /\ (AtEntry \/ FirstDeadline < i) /\ contacted' = contacted   \* a done context: the endpoint may not even be dialled
                 /\ i' = i + 1
                 /\ result' = IF ok THEN [done |-> TRUE, err |-> FALSE, certs |-> e.certs, cm |-> e.cm]
                                                 ELSE Pending
                 /\ last' = [NoLbl EXCEPT !.op = "contact", !.ep = i,
                                !.hs  = IF e.id = "plain" THEN "none" ELSE IF hs THEN "ok" ELSE "fail",
                                !.ver = IF e.id = "plain" \/ ~hs THEN "none" ELSE IF 13 \in Negotiated(e) THEN "tls13" ELSE "tls12",
                                !.cc  = IF e.id # "plain" /\ hs /\ AsksCert(e) THEN "configured" ELSE "none",
                                !.rpc = hs /\ ~Dead(e)]
           /\ UNCHANGED <<eps, bundle, env, pc>>

Return == /\ pc = "loop" /\ (result.done \/ i > Len(eps)) /\ env.hdone
          /\ pc' = "returned"
          /\ last' = [NoLbl EXCEPT !.op = "return", !.err = result.err, !.certs = result.certs, !.cm = result.cm]
          /\ UNCHANGED <<eps, bundle, env, i, contacted, result>>

\* the delay function: exponential in the attempt, capped, then jittered; attempt 0 = the base delay.
\* Model arithmetic in tenths of a unit (jitter factors are (10+j)/10, j in -jit..jit).
Min2(a, b) == IF a <= b THEN a ELSE b
RECURSIVE Grow(_, _, _, _)
Grow(x, m, n, cap) == IF n = 0 THEN x ELSE Grow(Min2(x * m, cap), m, n - 1, cap)   \* saturating x * m^n
Draws(c, a) == IF a = 0 THEN {10 * c.base}
               ELSE {Grow(c.base, c.mult, a, c.max) * (10 + j) : j \in (0 - c.jit)..c.jit}
SMin(S) == CHOOSE x \in S : \A y \in S : x <= y
SMax(S) == CHOOSE x \in S : \A y \in S : x >= y
Backoff == /\ pc = "bo"
           /\ \E c \in BackoffCfgs : \E a \in Attempts :
                last' = [NoLbl EXCEPT !.op = "backoff",
                           !.bo = [att0 |-> a = 0, base |-> Val(10 * c.base), min |-> Val(SMin(Draws(c, a))),
                                   max |-> Val(SMax(Draws(c, a))), bound |-> Val(c.max * (10 + c.jit))]]
           /\ UNCHANGED <<eps, bundle, env, pc, i, contacted, result>>

\* the same Signer is asked again; meanwhile the endpoints have changed their behaviour to env.next
NextCall == /\ pc = "returned" /\ env.next # <<>>
            /\ eps' = env.next /\ env' = [env EXCEPT !.next = <<>>]
            /\ pc' = "loop" /\ i' = 1 /\ contacted' = <<>> /\ result' = Pending
            /\ last' = [NoLbl EXCEPT !.op = "nextcall"]
            /\ UNCHANGED bundle

Next == NextCall \/ OtherConf \/ PriorCall \/ Construct \/ Contact \/ Return \/ Backoff
Spec == Init /\ [][Next]_vars

---------------------------------------------------------------------------
\* C17: ordered fail-over; first success wins; exhaustion (or no endpoint) is an error; retry delays are bounded
C17_Contact(l) ==
  /\ l.ep <= Len(eps)
  /\ IF CutKind THEN l.rpc => \A m \in 1..Len(contacted) : contacted[m] < l.ep   \* a context that ends early: requests arrive in order;
                                 \* endpoints may go undialled, and connection attempts without a request (made in the background
                                 \* for a call that has already given up) are not ordered
                ELSE l.ep = Len(contacted) + 1                          \* strictly in order: no skip, no repeat, no invention
  /\ \A m \in 1..Len(contacted) :                               \* nobody is contacted after an endpoint succeeded
        contacted[m] \notin Goods
  /\ l.rpc => l.same                                            \* the request arrives unmodified
C17_Return(l) ==
  /\ ~l.pan /\ ~l.hang                                          \* it returns (whatever the request budget), it does not crash
  /\ l.kept                                                     \* the caller's request message is what it was before the call
  /\ IF FirstGood = 0
       THEN l.err                                               \* never an empty success
       ELSE /\ ~l.err
            /\ contacted = Upto(FirstGood)
            /\ l.certs = eps[FirstGood].certs                   \* the CA's certificates in the CA's order
            /\ l.cm = eps[FirstGood].cm                         \* one comment per certificate, parallel
C17_Backoff(b) ==
  /\ ~b.min.neg                                                 \* 0 <= every delay
  /\ VLe(b.max, b.bound)                                        \* every delay <= max * (1 + jitter), attempt 0 included
C17_Step ==
  /\ (last'.op = "contact")   => C17_Contact(last')
  /\ (last'.op = "return")    => C17_Return(last')
  /\ (last'.op = "construct") => (last'.err => Len(eps) = 0)
  /\ (last'.op = "backoff")   => C17_Backoff(last'.bo)

\* C18: only authenticated CA servers are talked to; impostors are failed endpoints; the client certificate is presented
C18_Contact(l) ==
  (l.ep \in 1..Len(eps) /\ eps[l.ep].id # "plain") =>
     LET e == eps[l.ep] IN
     /\ (l.hs = "ok") <=> HandshakeOk(e, bundle)
     /\ (l.hs = "ok") => l.ver \in {"tls12", "tls13"}
     /\ l.rpc => (l.hs = "ok")
     /\ (HandshakeOk(e, bundle) /\ AsksCert(e)) => l.cc = "configured"   \* whichever way the server asks and whatever it hints at
C18_Step ==
  /\ (last'.op = "contact") => C18_Contact(last')
  /\ (last'.op = "return")  => C17_Return(last')

\* strict conformance with the design beyond what the statements demand (reported as SPEC-DRIFT, never as a violation):
\* the design returns exactly the base delay for attempt 0
Strict_Step == (last'.op = "backoff" /\ last'.bo.att0) => (last'.bo.min = last'.bo.base /\ last'.bo.max = last'.bo.base)

P_C17 == [][C17_Step]_vars
P_Strict == [][Strict_Step]_vars
P_C18 == [][C18_Step]_vars

---------------------------------------------------------------------------
\* sanity of the design (invariants of the bounded model)
TypeOK == /\ env.ctx \in {"wide", "tight", "none", "ample", "cancelled", "expired", "expiredwarm", "cancelmid"} /\ env.tries \in 1..3 /\ env.loaded \subseteq (AllCAs \cup {"ca1b"})
          /\ pc \in {"new", "loop", "returned", "refused", "bo"}
          /\ i \in 1..(MaxN + 1) /\ Len(contacted) <= MaxN
          /\ result.done \in BOOLEAN /\ result.err \in BOOLEAN
          /\ Len(result.certs) = Len(result.cm)
Returned == (pc = "returned" /\ ~CutKind) =>
              /\ last.err <=> (FirstGood = 0)
              /\ ~last.err => Len(last.certs) \in 1..3 /\ Len(last.cm) = Len(last.certs)
              /\ contacted = Upto(IF FirstGood = 0 THEN Len(eps) ELSE FirstGood)
NoEmptySuccess == pc = "returned" => (last.err \/ Len(last.certs) >= 1)
NoLateContact == \A m \in 1..Len(contacted) : \A n \in 1..Len(contacted) :
                    (m < n /\ contacted[m] \in Goods) => FALSE
=============================================================================
