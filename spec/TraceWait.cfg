SPECIFICATION TraceSpec
CONSTANTS
  Waiters = {"w1", "w2", "w3", "w4", "w5", "w6", "w7", "w8", "w9", "w10", "w11", "w12", "w13", "w14", "w15", "w16"}
  Codes <- TrCodes
  TableSize = 40
  WaitCode = 35
  Vias = {TRUE, FALSE}
  MaxReq = 0
  MaxBatch = 0
  Hist = FALSE
  Reps = {1}
  CountHist = FALSE
  GenBug = FALSE
  GenMod = 256
  Deliveries = {"single", "pipelined", "fragmented"}
  SplitReg = FALSE
