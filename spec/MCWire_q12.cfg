SPECIFICATION SpecWire
CONSTANTS
  Codes = {11, 13, 31, 32, 33, 35, 36}
  MaxItems = 3
  Faults = TRUE
  RKeys = {"k1"}
  RPass = {"p1"}
  MaxHist = 0
  BigResp = FALSE
  MaxConns = 2
  MaxCItems = 0
  MaxLines = 0
INVARIANT WTypeOK Inv_NoCrash Inv_Count Inv_End Inv_Stream
PROPERTIES P_C12
CONSTRAINT EmitStream
CHECK_DEADLOCK FALSE
