SPECIFICATION Spec
CONSTANTS
  Sc1 <- C04t_Sc1
  Sc2 <- C04t_Sc2
  PreAgents <- Pre3
  MaxRuns = 2
  MaxFaults = 1
  AgentFaultKinds = {"fail", "garbage", "close"}
  AgentFaultPts = {"chal", "ins", "list", "remove", "add"}
  CAFaultKinds = {"err", "panic"}
  HPanicMethods = {"auth", "name", "gen"}
  RemovePick <- MCRemovePick
INVARIANT TypeOK ReplayNeverAuthenticates
PROPERTIES P_C04
CHECK_DEADLOCK FALSE
