SPECIFICATION Spec
CONSTANTS
  Sc1 <- C03_Sc1
  Sc2 <- C03_Sc2
  PreAgents <- Pre2o
  MaxRuns = 2
  MaxFaults = 1
  AgentFaultKinds = {"fail", "garbage", "close"}
  AgentFaultPts = {"ins", "list", "remove", "add"}
  CAFaultKinds = {"err", "panic"}
  HPanicMethods = {"gen", "name"}
  RemovePick <- MCRemovePick
INVARIANT TypeOK ReplayNeverAuthenticates
PROPERTIES P_C03
CHECK_DEADLOCK FALSE
