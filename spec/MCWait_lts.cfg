SPECIFICATION Spec
CONSTANTS
  Waiters = {"w1", "w2", "w3", "w4"}
  Codes = {11, 35, 40}
  TableSize = 40
  WaitCode = 35
  Vias = {TRUE, FALSE}
  MaxReq = 1000000
  MaxBatch = 2
  Hist = FALSE
  Reps = {1, 255, 256}
  CountHist = TRUE
  GenBug = FALSE
  GenMod = 256
  Deliveries = {"single", "pipelined", "fragmented"}
  SplitReg = FALSE
VIEW ViewLts
INVARIANTS TypeOK Partition
PROPERTIES P_C20
ACTION_CONSTRAINT EmitOrd
CHECK_DEADLOCK FALSE
