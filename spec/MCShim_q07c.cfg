SPECIFICATION Spec
CONSTANTS
  Keys = {"k1", "k2"}
  Certs <- U3Certs
  CertKey <- U3cCertKey
  V0 <- U3cV0
  V1 <- U3cV1
  Yss <- U3cYss
  Pass = {"p1"}
  Modes = {TRUE, FALSE}
  Ops <- OpsNoLock
  FaultKinds = {}
VIEW View
INVARIANT TypeOK
PROPERTIES P_C07 P_C08 P_C09 P_C10
CHECK_DEADLOCK FALSE
