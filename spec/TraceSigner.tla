----------------------------- MODULE TraceSigner -----------------------------
(***************************************************************************)
(* Validation of recorded executions of the real crypki.Signer and          *)
(* backoff.Config against Signer.tla.  Lines of trace.ndjson:               *)
(*   {"ev":"reset","eps":[descriptor..],"bundle":{"cas":[..],"lay":..}}     *)
(*        a new case: the configuration handed to the real code             *)
(*   {"ev":"step","e":{"op":"construct","err":b}}   NewSigner returned      *)
(*   {"ev":"step","e":{"op":"contact","ep":m,"hs":..,"ver":..,"cc":..,     *)
(*        "rpc":b,"same":b}}   what the harness server of endpoint m saw    *)
(*   {"ev":"step","e":{"op":"return","err":b,"pan":b,"certs":[..],"cm":[..]}}*)
(*        what Signer.Sign returned                                        *)
(*   {"ev":"step","e":{"op":"backoff","bo":{att0,base,min,max,bound}}}      *)
(*        extremes of the draws of Config.Backoff for one input             *)
(* The state (contacted) is derived from the events; the step formulas of   *)
(* Signer.tla are evaluated on every step.                                  *)
(***************************************************************************)
EXTENDS Signer, Json

TraceLog == ndJsonDeserialize("trace.ndjson")
VARIABLE l
tvars == <<vars, l>>
S(x) == {x[k] : k \in DOMAIN x}

EnvOf(r) == [next |-> <<>>, ctx |-> IF "ctx" \in DOMAIN r THEN r.ctx ELSE "wide", req |-> IF "req" \in DOMAIN r THEN r.req ELSE "full", tries |-> IF "tries" \in DOMAIN r THEN r.tries ELSE 1, hist |-> IF "hist" \in DOMAIN r THEN r.hist ELSE "none",
             loaded |-> {}, hdone |-> TRUE]
BundleOf(r) == [cas |-> S(r.bundle.cas), lay |-> r.bundle.lay]
LblOf(e) ==
  CASE e.op = "contact"   -> [NoLbl EXCEPT !.op = "contact", !.ep = e.ep, !.hs = e.hs, !.ver = e.ver, !.cc = e.cc,
                                           !.rpc = e.rpc, !.same = e.same]
    [] e.op = "return"    -> [NoLbl EXCEPT !.op = "return", !.err = e.err, !.pan = e.pan, !.hang = e.hang, !.kept = (IF "kept" \in DOMAIN e THEN e.kept ELSE TRUE), !.certs = e.certs, !.cm = e.cm]
    [] e.op = "construct" -> [NoLbl EXCEPT !.op = "construct", !.err = e.err]
    [] e.op = "nextcall"  -> [NoLbl EXCEPT !.op = "nextcall"]
    [] e.op = "priorcall" -> [NoLbl EXCEPT !.op = "priorcall", !.err = e.err]
    [] e.op = "otherconf" -> [NoLbl EXCEPT !.op = "otherconf", !.err = e.err]
    [] e.op = "backoff"   -> [NoLbl EXCEPT !.op = "backoff", !.bo = e.bo]

TraceInit == /\ l = 2 /\ TraceLog[1].ev = "reset"
             /\ eps = TraceLog[1].eps /\ bundle = BundleOf(TraceLog[1]) /\ env = EnvOf(TraceLog[1])
             /\ pc = "trace" /\ i = 1 /\ contacted = <<>> /\ result = Pending /\ last = NoLbl
Reset == /\ l <= Len(TraceLog) /\ TraceLog[l].ev = "reset"
         /\ eps' = TraceLog[l].eps /\ bundle' = BundleOf(TraceLog[l]) /\ env' = EnvOf(TraceLog[l])
         /\ contacted' = <<>> /\ last' = NoLbl /\ l' = l + 1
         /\ UNCHANGED <<pc, i, result>>
Step == /\ l <= Len(TraceLog) /\ TraceLog[l].ev = "step"
        /\ last' = LblOf(TraceLog[l].e)
        /\ contacted' = CASE TraceLog[l].e.op = "contact" -> Append(contacted, TraceLog[l].e.ep)
                          [] TraceLog[l].e.op = "nextcall" -> <<>>          \* a further call on the same Signer: judged against its own vector
                          [] OTHER -> contacted
        /\ eps' = IF TraceLog[l].e.op = "nextcall" THEN TraceLog[l].e.eps ELSE eps
        /\ l' = l + 1
        /\ env' = [env EXCEPT !.loaded = CASE TraceLog[l].e.op = "otherconf" -> @ \cup Others(bundle)
                                            [] TraceLog[l].e.op = "construct" -> @ \cup bundle.cas
                                            [] OTHER -> @]
        /\ UNCHANGED <<bundle, pc, i, result>>
TraceNext == Reset \/ Step
TraceSpec == TraceInit /\ [][TraceNext]_tvars

\* reporting action constraints: one TLC run lists every rejected line of every property
Rep(name, F) == F \/ PrintT(<<"REJ", name, l>>)
RepC17 == Rep("TC17", C17_Step)
RepC18 == Rep("TC18", C18_Step)
RepStrict == Rep("Strict", Strict_Step)
TraceAccepted == TLCGet("stats").diameter = Len(TraceLog)
=============================================================================
