SPECIFICATION Spec16
CONSTANTS
  MHBytes = {0, 1, 127, 128, 255}
  MutCtx <- MutCtxAll
  MaxVal = 8
  ExportMode = "quick"
INVARIANTS Inv16_Classes Inv16_MH
PROPERTIES P_C16 P_Hist
CONSTRAINT Emit16
CHECK_DEADLOCK FALSE
