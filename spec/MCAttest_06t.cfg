SPECIFICATION Spec06
CONSTANTS
  MHBytes = {0}
  MutCtx <- MutCtxAll
  MaxVal = 0
  ExportMode = "thorough"
INVARIANTS Inv06_Clauses Inv06_Unique Inv06_Base Inv06_LabelScheme Inv06_Clock
PROPERTIES P_C06 P_MutInvalid P_NoopSame P_Hist
CONSTRAINT Emit06
CHECK_DEADLOCK FALSE
