SPECIFICATION SpecRpc
CONSTANTS
  Codes = {11}
  MaxItems = 1
  Faults = FALSE
  RKeys = {"k1", "k2"}
  RPass = {"p1", "p2"}
  MaxHist = 2
  BigResp = FALSE
  MaxConns = 2
  MaxCItems = 0
  MaxLines = 3
INVARIANT RTypeOK Inv_Twin
PROPERTIES P_C13
VIEW RView
CHECK_DEADLOCK FALSE
