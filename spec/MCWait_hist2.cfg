SPECIFICATION Spec
CONSTANTS
  Waiters = {"w1", "w2"}
  Codes = {11, 35, 40}
  TableSize = 40
  WaitCode = 35
  Vias = {TRUE, FALSE}
  MaxReq = 3
  MaxBatch = 1
  Hist = TRUE
  Reps = {1}
  CountHist = TRUE
  GenBug = FALSE
  GenMod = 256
  Deliveries = {"single"}
  SplitReg = TRUE
INVARIANTS TypeOK Partition NextRequest CountsLog
PROPERTIES P_C20
CHECK_DEADLOCK FALSE
