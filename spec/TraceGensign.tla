---------------------------- MODULE TraceGensign ----------------------------
(***************************************************************************)
(* Validation of recorded runs of the real gensign.Run against Gensign.    *)
(* Every line of trace.ndjson is one of                                    *)
(*   {"ev":"reset","post":{"ag":[..]}}    a new agent (new history) starts *)
(*   {"ev":"step","pre":{"ag":[..]},"e":{"op":"run","sc":S,"r":R},"post":{"ag":[..]}}                       *)
(*                                        one run of the real code         *)
(*   {"ev":"step","e":{"op":"stat"}}      end of the batch                 *)
(* with S the scenario (inputs, environment dispositions; free text hex-   *)
(* encoded), R the observation record in the shape of Gensign!r, and the   *)
(* identity sets of the forwarded agent before/after.  A run is accepted   *)
(* only if its pre-state is the post-state reached so far (continuity).    *)
(* The challenge history (usedCh), the RA key history (seenKeys) and the   *)
(* per-position byte statistics of the challenges are accumulated by TLC   *)
(* over the whole file (one file = one process of the real code).  The     *)
(* predicates C01_Run..C04_Run of Gensign judge every recorded run.        *)
(***************************************************************************)
EXTENDS Gensign, Json

TraceLog == ndJsonDeserialize("trace.ndjson")
VARIABLES l,       \* next line
          kind,    \* kind of the line consumed last: "reset" | "run" | "stat"
          chpos    \* [1..ChMax -> set of byte values seen at that challenge position]
tvars == <<vars, l, kind, chpos>>
TrSc2(s) == {}
ChMax == 128            \* challenge positions watched (longer challenges: the first 128 bytes)

Rec == TraceLog[l]
Frozen == UNCHANGED <<prevSig, nrun, hist, pc, hi, cj, todo, nf, dead>>
RunKeys(o) == {o.fr[j].id : j \in {j2 \in DOMAIN o.fr : o.fr[j2].k = "add" /\ ~o.fr[j2].cert}} \cup {o.csr[m].key : m \in DOMAIN o.csr}

TraceInit == /\ l = 2 /\ TraceLog[1].ev = "reset" /\ kind = "reset"
             /\ ag = S(TraceLog[1].post.ag) /\ usedCh = {} /\ seenKeys = {} /\ chpos = [j \in 1..ChMax |-> {}]
             /\ prevSig = [key |-> "none", data |-> ""] /\ nrun = 0 /\ hist = <<>> /\ pc = "done"
             /\ sc = [hs |-> <<>>, fok |-> FALSE] /\ r = [err |-> ""]
             /\ hi = 1 /\ cj = 1 /\ todo = {} /\ nf = 0 /\ dead = FALSE /\ pre = [ag |-> {}, used |-> {}, seen |-> {}]

Reset == /\ l <= Len(TraceLog) /\ Rec.ev = "reset"
         /\ ag' = S(Rec.post.ag) /\ kind' = "reset" /\ l' = l + 1
         /\ UNCHANGED <<usedCh, seenKeys, chpos, sc, r, pre>> /\ Frozen

RunStep == /\ l <= Len(TraceLog) /\ Rec.ev = "step" /\ Rec.e.op = "run"
           /\ ag = S(Rec.pre.ag)                       \* continuity with the previous post-state
           /\ ag' = S(Rec.post.ag)
           /\ sc' = Rec.e.sc /\ r' = Rec.e.r
           /\ pre' = [ag |-> ag, used |-> usedCh, seen |-> seenKeys]
           /\ usedCh' = usedCh \cup {Rec.e.r.chal[m].hx : m \in DOMAIN Rec.e.r.chal}
           /\ seenKeys' = seenKeys \cup RunKeys(Rec.e.r)
           /\ chpos' = [j \in 1..ChMax |-> chpos[j] \cup {Rec.e.r.chal[m].data[j] : m \in {m2 \in DOMAIN Rec.e.r.chal : Len(Rec.e.r.chal[m2].data) >= j}}]
           /\ kind' = "run" /\ l' = l + 1 /\ Frozen

StatStep == /\ l <= Len(TraceLog) /\ Rec.ev = "step" /\ Rec.e.op = "stat"
            /\ kind' = "stat" /\ l' = l + 1
            /\ UNCHANGED <<ag, usedCh, seenKeys, chpos, sc, r, pre>> /\ Frozen

TraceNext == Reset \/ RunStep \/ StatStep
TraceSpec == TraceInit /\ [][TraceNext]_tvars

\* statistical reading of "unpredictable, server-chosen": over a batch of at least 32 challenges at least 16 byte positions
\* take >= 2 values (no length or layout is demanded: a fixed label followed by a random nonce is fine; fewer than 16
\* varying bytes is not).  Pairwise distinctness over the batch is the "fresh" clause of C01.
ChalStatOK == Cardinality(usedCh) >= 32 => Cardinality({j \in 1..ChMax : Cardinality(chpos[j]) >= 2}) >= 16

IsRun == kind' = "run"
W01 == (IF IsRun THEN C01_Why(sc', r', pre', ag') ELSE {}) \cup (IF kind' = "stat" /\ ~ChalStatOK THEN {"challenge-statistics"} ELSE {})
W02 == IF IsRun THEN C02_Why(sc', r', pre', ag') ELSE {}
W03 == IF IsRun THEN C03_Why(sc', r', pre', ag') ELSE {}
W04 == IF IsRun THEN C04_Why(sc', r', pre', ag') ELSE {}
TC01 == [][W01 = {}]_tvars
TC02 == [][W02 = {}]_tvars
TC03 == [][W03 = {}]_tvars
TC04 == [][W04 = {}]_tvars
\* the same formulas as reporting action constraints: one TLC run lists every rejected line and the clauses it falsifies
Rep(name, W) == W = {} \/ (PrintT(<<"REJ", name, l>>) /\ PrintT(<<"WHY", l, W>>))
RepC01 == Rep("TC01", W01)
RepC02 == Rep("TC02", W02)
RepC03 == Rep("TC03", W03)
RepC04 == Rep("TC04", W04)
TraceAccepted == TLCGet("stats").diameter = Len(TraceLog)
=============================================================================
