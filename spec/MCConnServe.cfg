SPECIFICATION Spec
CONSTANTS
  Conns = {1, 2, 3}
  MaxReq = 2
  Shared = FALSE
INVARIANTS TypeOK OwnReply UpOnce OneUp
PROPERTY AllAnswered
CHECK_DEADLOCK FALSE
