#!/usr/bin/env python3
"""Entry point: check.py <property id> [--tier quick|thorough] [--replay path]"""
import sys, os, argparse, traceback
sys.path.insert(0, os.path.dirname(os.path.abspath(__file__)))
import vlib

FAMILIES = {
    "C01": "fam_gensign", "C02": "fam_gensign", "C03": "fam_gensign", "C04": "fam_gensign",
    "C05": "fam_keyid", "C19": "fam_keyid",
    "C06": "fam_attest", "C16": "fam_attest",
    "C07": "fam_shim", "C08": "fam_shim", "C09": "fam_shim", "C10": "fam_shim",
    "C11": "fam_conc",
    "C12": "fam_wire", "C13": "fam_wire", "C20": "fam_wait",
    "C14": "fam_reqparam", "C15": "fam_reqparam",
    "C17": "fam_signer", "C18": "fam_signer",
}


def main():
    ap = argparse.ArgumentParser()
    ap.add_argument("prop")
    ap.add_argument("--tier", default=os.environ.get("VERIF_TIER", "quick"), choices=["quick", "thorough"])
    ap.add_argument("--replay", default=None)
    a = ap.parse_args()
    if a.prop not in FAMILIES:
        print("unknown property %s" % a.prop, file=sys.stderr)
        return 2
    mod = __import__(FAMILIES[a.prop])
    try:
        if a.replay:
            return mod.replay(a.prop, a.replay)
        return mod.run(a.prop, a.tier)
    except vlib.NoVerdict as e:
        print("NO-VERDICT property=%s: %s" % (a.prop, e), file=sys.stderr)
        return 2
    except Exception:
        traceback.print_exc()
        print("NO-VERDICT property=%s: internal error of the checking machinery" % a.prop, file=sys.stderr)
        return 2


if __name__ == "__main__":
    sys.exit(main())
