"""C17, C18: Signer.tla checked with TLC, bound to crypki.Signer / tlsutils / internal/backoff by replaying every
configuration of the bounded model on the real code and validating everything recorded with TLC (TraceSigner.tla)."""
import json, os, re, time, random, shutil
import vlib
from vlib import NoVerdict, log

CFG = {
    "C17": dict(quick=["MCSigner_c17q", "MCSigner_c17c", "MCSigner_c17d", "MCSigner_c17lq", "MCSigner_c17x", "MCSigner_c17r", "MCSigner_c17m"],
                thorough=["MCSigner_c17t", "MCSigner_c17c", "MCSigner_c17d", "MCSigner_c17lt", "MCSigner_c17x", "MCSigner_c17r", "MCSigner_c17m"], mode="c17", formula="TC17"),
    "C18": dict(quick=["MCSigner_c18a", "MCSigner_c18b", "MCSigner_c18h", "MCSigner_c18r", "MCSigner_c18p", "MCSigner_c18s", "MCSigner_c18e"],
                thorough=["MCSigner_c18t", "MCSigner_c18h", "MCSigner_c18r", "MCSigner_c18p", "MCSigner_c18s", "MCSigner_c18e"], mode="c18", formula="TC18"),
}
TRACE_CFG = """SPECIFICATION TraceSpec
CONSTANTS
  MaxN = 4
  Templates = {}
  Bundles = {}
  BackoffCfgs = {}
  Attempts = {}
  Ctxs = {}
  Tries = {}
  Calls = {}
  Reqs = {}
  Hists = {}
"""
HS = os.path.join(vlib.HARNESS, "signer")
CHUNK = 40000          # events per TLC trace-validation run
BACKOFF_MS = 250       # delay between two tries at one endpoint in retry cases
CONFIRM_TLS = 16       # TLS cases are re-executed in a process of their own (with the recorded history of TLS configurations)
CONFIRM_MAX = 60       # rejected cases re-executed before they are reported


def build(prop):
    outdir = os.path.join(vlib.OUT, prop, "bin")
    sbin = vlib.build_harness("signer", "crypki", {"crypki/zz_verif_signer_test.go": os.path.join(HS, "zz_verif_signer_test.go")}, outdir=outdir)
    bbin = None
    if prop == "C17":
        bbin = vlib.build_harness("backoff", "internal/backoff",
                                  {"internal/backoff/zz_verif_backoff_test.go": os.path.join(HS, "zz_verif_backoff_test.go")}, outdir=outdir)
    return sbin, bbin


def model_check(prop, cfgname):
    """TLC on the bounded model: the property's step formula over ALL configurations; exports the configurations."""
    wd = vlib.workdir(prop, "mc_" + cfgname)
    txt = open(os.path.join(vlib.SPEC, cfgname + ".cfg")).read().replace("PROPERTIES P_C17 P_C18", "PROPERTIES P_%s" % prop)
    with open(os.path.join(wd, "run.cfg"), "w") as f:
        f.write(txt)
    r = vlib.tlc(wd, "MCSigner.tla", "run.cfg", workers=4, timeout=1500)
    if r.violated:
        raise NoVerdict("the MODEL violates %s under %s (model counterexample, not a verdict on the code):\n%s" % (r.violated, cfgname, r.stdout[-3000:]))
    if r.error or "Model checking completed. No error" not in r.stdout:
        raise NoVerdict("TLC failed on %s: %s" % (cfgname, r.error or r.stdout[-2000:]))
    cases, seen = [], set()
    for c in vlib.tlc_json_lines(r.stdout, "CASE"):
        k = json.dumps(c, sort_keys=True)
        if k not in seen:
            seen.add(k)
            cases.append(c)
    bot = vlib.tlc_json_lines(r.stdout, "BOT")
    log("[tlc] %s: %d generated / %d distinct, depth %d, %d configurations exported, %.1fs" % (cfgname, r.generated, r.distinct, r.depth, len(cases), r.wall))
    if not cases:
        raise NoVerdict("TLC exported no configuration from %s" % cfgname)
    return cases, (bot[0] if bot else None), r.distinct, r.generated


def backoff_cases(bot):
    """Concrete inputs of (*Config).Backoff: the cross product of the configuration / attempt classes exported by TLC
    (MCSigner!BoTable) and every (configuration, attempt) of the bounded backoff model (unit 1 ms)."""
    ms, s = 1000000, 1000000000
    out = []
    cl = bot["classes"]
    for mx in cl["max"]:
        mxv = {"15s": 15 * s, "1ms": ms}[mx]
        for b in cl["base"]:
            bv = {"zero": 0, "small": max(1, mxv // 7), "max": mxv}[b]
            for m in cl["mult"]:
                for j in cl["jit"]:
                    for a in cl["attempts"]:
                        out.append({"tid": "bo%d" % len(out), "base": str(bv), "max": str(mxv), "mult": float(m), "jit": float(j), "attempt": a,
                                    "class": "base=%s mult=%s jit=%s" % (b, m, j)})
    for c in bot["model"]["cfgs"]:
        for a in bot["model"]["attempts"]:
            b = "zero" if c["base"] == 0 else ("max" if c["base"] == c["max"] else "pos")
            out.append({"tid": "bm%d" % len(out), "base": str(c["base"] * ms), "max": str(c["max"] * ms), "mult": float(c["mult"]), "jit": c["jit"] / 10.0,
                        "attempt": str(a), "class": "base=%s mult=%s jit=%s" % (b, c["mult"], c["jit"] / 10.0)})
    return out


def run_signer(prop, sbin, wd, plan, label, timeout=1500):
    planp, outp = os.path.join(wd, "plan_%s.json" % label), os.path.join(wd, "obs_%s.ndjson" % label)
    with open(planp, "w") as f:
        json.dump(plan, f)
    rc, out, err, summ = vlib.run_harness(sbin, "TestVerifSigner", {"VERIF_PLAN": planp, "VERIF_OUT": outp}, timeout=timeout)
    if rc != 0 or not summ:
        raise NoVerdict("signer harness failed (rc=%d):\n%s\n%s" % (rc, out[-3000:], err[-3000:]))
    return vlib.split_traces(vlib.read_ndjson(outp)), summ


def run_backoff(prop, bbin, wd, plan, label):
    planp, outp = os.path.join(wd, "plan_%s.json" % label), os.path.join(wd, "obs_%s.ndjson" % label)
    with open(planp, "w") as f:
        json.dump(plan, f)
    rc, out, err, summ = vlib.run_harness(bbin, "TestVerifBackoff", {"VERIF_PLAN": planp, "VERIF_OUT": outp}, timeout=900)
    if rc != 0 or not summ:
        raise NoVerdict("backoff harness failed (rc=%d):\n%s\n%s" % (rc, out[-3000:], err[-3000:]))
    return vlib.split_traces(vlib.read_ndjson(outp)), summ


def sanity(traces):
    """Things that are neither a pass nor a violation of C17/C18."""
    for t in traces:
        r0 = t[0]
        if r0.get("ev") != "reset":
            raise NoVerdict("a recorded trace does not start with a reset record")
        for r in t[1:]:
            e = r["e"]
            if e["op"] == "construct" and e["err"] and len(r0["eps"]) > 0:
                raise NoVerdict("NewSigner refused a valid configuration written by the harness: %s" % json.dumps(r0.get("info")))
            if e["op"] == "otherconf" and e["err"]:
                raise NoVerdict("a history step (another TLS configuration over valid files) failed: %s" % json.dumps(r0.get("info"))[:400])
            if e["op"] == "contact" and e["hs"] == "pending":
                raise NoVerdict("a harness server did not finish a handshake in time (trace %s)" % r0.get("tid"))


def tlc_judge(prop, traces, label):
    """Rejected (trace index, line) pairs of the property's formula, over all traces (chunked TLC runs)."""
    fml = CFG[prop]["formula"]
    rej, drift, nev, wall, k, ci = [], [], 0, 0.0, 0, 0
    while k < len(traces):
        chunk, ne = [], 0
        k0 = k
        while k < len(traces) and (ne == 0 or ne + len(traces[k]) <= CHUNK):
            chunk.append(traces[k])
            ne += len(traces[k])
            k += 1
        twd = vlib.workdir(prop, "tv_%s_%d" % (label, ci))
        ci += 1
        rejected, st = vlib.validate_traces(prop, twd, "TraceSigner.tla", TRACE_CFG, [fml, "Strict"], chunk)
        rej += [(k0 + ti, li) for (ti, li) in rejected[fml]]
        drift += [(k0 + ti, li) for (ti, li) in rejected["Strict"] if (ti, li) not in set(rejected[fml])]
        nev += st["events"]
        wall += st["wall"]
        shutil.rmtree(twd, ignore_errors=True)
    log("[tlc] trace validation %s: %d traces / %d events in %.1fs, %d steps rejected by %s" % (label, len(traces), nev, wall, len(rej), fml))
    return rej, nev, drift


def vkey(trace, li):
    r0, e = trace[0], trace[li]["e"]
    info = r0.get("info") or {}
    if e["op"] == "backoff":
        c = info.get("case", {})
        return "backoff %s att=%s pow=%s" % (c.get("class", "?"), c.get("attempt", "?"), info.get("pow", "?"))
    def okk(x):
        longs = [h for h in x.get("sh", []) if h.startswith("L")]
        return "(%d%s)" % (len(x["certs"]), (":" + "/".join(x["sh"])) if longs else "")
    eps = ",".join((x["cls"] + (okk(x) if x["cls"] == "ok" else "")) if x["id"] == "plain"
                   else "%s/%s/%s%s/%s" % (x["id"], x["vmax"], x["pol"], ("+hint:" + x["hint"]) if x.get("hint", "own") not in ("own", "none") else "", x["cls"])
                   for x in r0["eps"]) or "-"
    k = "sign n=%d via=%s eps=%s" % (len(r0["eps"]), info.get("via", "?"), eps)
    if r0["bundle"]["cas"]:
        k += " bundle=%s/%s" % ("+".join(r0["bundle"]["cas"]), r0["bundle"]["lay"])
    if r0.get("ctx", "wide") != "wide" or r0.get("hist", "none") != "none" or r0.get("tries", 1) != 1:
        k += " ctx=%s hist=%s tries=%d" % (r0.get("ctx", "wide"), r0.get("hist", "none"), r0.get("tries", 1))
    if r0.get("next"):
        k += " calls=2 second=%s" % ",".join(x["cls"] + ("(%d)" % len(x["certs"]) if x["cls"] == "ok" else "") for x in r0["next"])
    if r0.get("req", "full") != "full":
        k += " req=%s" % r0["req"]
    if e["op"] == "return":
        k += " kept=%s" % str(e.get("kept", True)).lower()
        return k + " rej=return err=%s pan=%s%s certs=%d" % (str(e["err"]).lower(), str(e["pan"]).lower(), " hang=true" if e.get("hang") else "", len(e["certs"]))
    if e["op"] == "contact":
        return k + " rej=contact ep=%d hs=%s ver=%s cc=%s rpc=%s same=%s" % (e["ep"], e["hs"], e["ver"], e["cc"], str(e["rpc"]).lower(), str(e["same"]).lower())
    return k + " rej=%s err=%s" % (e["op"], str(e.get("err")).lower())


def case_of(trace):
    r0 = trace[0]
    return {"eps": r0["eps"], "bundle": r0["bundle"], "ctx": r0.get("ctx", "wide"), "tries": r0.get("tries", 1), "req": r0.get("req", "full"), "next": r0.get("next") or [], "hist": r0.get("hist", "none"), "info": r0.get("info")}


def proc_key(c):
    """Cases that may share one harness process.  TLS configuration is process-global state of the code under test's
    helpers, so the history of CA files read in a process is part of the case: cases without history share a process only
    with cases over the same CAs; a case with a history step gets a process per (bundle, history kind)."""
    cas = tuple(sorted(c["bundle"]["cas"]))
    if c.get("tries", 1) > 1:
        return ("retry", cas, "", "%d" % c["tries"])     # the delay between tries is process-global (backoff.DefaultConfig)
    if c.get("hist", "none") == "none":
        return ("pure", cas, "", "")
    return ("hist", cas, c["bundle"]["lay"], c["hist"])


def judge(prop, verdict, sbin, bbin, traces, label, stats):
    """TLC judges the traces; rejected signer cases are re-executed once (single lane, long per-try timeout) and only
    reported when the real code is rejected again (guards against timing interference; the code is deterministic)."""
    sanity(traces)
    # a panic of Sign on a Signer built as a struct literal by the harness (not by NewSigner) says nothing about the code:
    # that construction path gives no verdict, the NewSigner-based paths still do
    lit = [t for t in traces if (t[0].get("info") or {}).get("via") in ("direct", "directnil", "literal") and any(r["e"].get("pan") for r in t[1:])]
    if lit:
        log("NO-VERDICT for %d case(s) on a Signer built as a struct literal (Sign panicked; construction path dropped): %s" % (len(lit), lit[0][0].get("info")))
        stats["literal_dropped"] = stats.get("literal_dropped", 0) + len(lit)
        traces = [t for t in traces if not any(t is x for x in lit)]
        if not traces:
            raise NoVerdict("every case of %s ran on a struct-literal Signer that panicked" % label)
    rej, nev, drift = tlc_judge(prop, traces, label)
    stats["events"] += nev
    stats["traces"] += len(traces)
    stats["drift"] = stats.get("drift", 0) + len(drift)
    dk = {}
    for (ti, li) in drift:
        dk.setdefault(vkey(traces[ti], li), []).append(ti)
    for k in sorted(dk)[:10]:
        log("SPEC-DRIFT (differs from the design, no listed property rejects it; %d cases): %s" % (len(dk[k]), k))
    first = {}
    for (ti, li) in rej:
        first.setdefault(ti, li)
    sign_ti = [ti for ti in sorted(first) if traces[ti][first[ti]]["e"]["op"] != "backoff"]
    bo_ti = [ti for ti in sorted(first) if traces[ti][first[ti]]["e"]["op"] == "backoff"]
    confirmed = []
    if sign_ti:
        todo = sign_ti[:CONFIRM_MAX]
        wd = vlib.workdir(prop, "confirm_" + label)
        def outcome(t, ti):
            rej2, _, _ = tlc_judge(prop, [t], label + "_confirm")
            if rej2:
                confirmed.append((t, min(li for (_, li) in rej2)))
            else:
                stats["flaky"] += 1
                log("not reproduced on re-execution (timing), discarded: %s" % vkey(traces[ti], first[ti]))
        sel = [ti for ti in todo if (traces[ti][0].get("info") or {}).get("via") != "tls"]
        if sel:
            ts, _ = run_signer(prop, sbin, wd, {"mode": "c17", "cases": [], "random": 0, "n0": False, "lanes": 4, "tryms": 2000,
                                                 "replays": [case_of(traces[ti]) for ti in sel]}, "confirm_c17")
            sanity(ts)
            bytid = {t[0]["tid"]: t for t in ts}
            for j, ti in enumerate(sel):
                if "p%d" % j not in bytid:
                    raise NoVerdict("re-execution lost case p%d" % j)
                outcome(bytid["p%d" % j], ti)
        # a TLS case is re-executed alone in a fresh process that first re-creates the recorded history of TLS configurations
        tsel = [ti for ti in todo if (traces[ti][0].get("info") or {}).get("via") == "tls"]
        bykey0 = {}
        for ti in tsel:
            bykey0.setdefault(vkey(traces[ti], first[ti]).split(" rej=")[0], ti)
        tsel = sorted(bykey0.values())[:CONFIRM_TLS]
        for j, ti in enumerate(tsel):
            c = case_of(traces[ti])
            ts, _ = run_signer(prop, sbin, wd, {"mode": "c18", "cases": [], "random": 0, "n0": False, "lanes": 1, "tryms": 2000,
                                                 "preload": (c.get("info") or {}).get("loaded0") or [], "replays": [c],
                                                 "backoffms": BACKOFF_MS if c.get("tries", 1) > 1 else 0}, "confirm_c18_%d" % j)
            sanity(ts)
            if len(ts) != 1:
                raise NoVerdict("re-execution lost a TLS case")
            if (ts[0][0].get("info") or {}).get("discard"):
                stats["flaky"] += 1
                log("re-execution too slow to be judged, discarded: %s" % vkey(traces[ti], first[ti]))
                continue
            outcome(ts[0], ti)
        if len(sign_ti) > CONFIRM_MAX:
            log("%d further rejected cases were not re-executed" % (len(sign_ti) - CONFIRM_MAX))
    for ti in bo_ti:
        confirmed.append((traces[ti], first[ti]))
    bykey = {}
    for (t, li) in confirmed:
        bykey.setdefault(vkey(t, li), []).append((t, li))
    for k in sorted(bykey):
        t, li = bykey[k][0]
        stats["saved"] = stats.get("saved", 0) + 1
        rp = vlib.save_replay(prop, "%s_%d_%s.ndjson" % (label, stats["saved"], t[0]["tid"]), t) if len(verdict.violations) < 25 else "(not saved)"
        info = t[0].get("info") or {}
        verdict.violation(k, "step %d of trace %s (and %d more cases with this key) is not allowed by %s_Step: %s%s" % (
            li, t[0]["tid"], len(bykey[k]) - 1, prop, json.dumps(t[li]["e"]), (" raw=" + json.dumps(info.get("raw"))) if info.get("raw") else ""), rp)
    if stats["flaky"] > max(3, 0.01 * stats["traces"]):
        raise NoVerdict("too many cases behaved differently on re-execution (%d): timing interference" % stats["flaky"])


def sample_of(t):
    return [{"config": [x["cls"] if x["id"] == "plain" else "%s/%s/%s" % (x["id"], x["vmax"], x["pol"]) for x in t[0]["eps"]],
             "bundle": t[0]["bundle"]}] + [r["e"] for r in t[1:6]]


def replay(prop, path):
    """Re-execute a recorded case on the real code and judge it again."""
    recs = vlib.read_ndjson(path)
    r0 = recs[0]
    info = r0.get("info") or {}
    sbin, bbin = build(prop)
    wd = vlib.workdir(prop, "replay_run")
    verdict = vlib.Verdict(prop)
    stats = {"events": 0, "traces": 0, "flaky": 0}
    if info.get("via") == "backoff":
        if not bbin:
            raise NoVerdict("a backoff case can only be replayed for C17")
        ts, _ = run_backoff(prop, bbin, wd, {"cases": [info["case"]], "draws": info.get("draws", 200), "random": 0}, "replay")
    else:
        mode = "c18" if info.get("via") == "tls" else "c17"
        ts, _ = run_signer(prop, sbin, wd, {"mode": mode, "cases": [], "random": 0, "n0": False, "lanes": 1, "tryms": 3000,
                                             "preload": info.get("loaded0") or [], "replays": [case_of(recs)],
                                             "backoffms": BACKOFF_MS if recs[0].get("tries", 1) > 1 else 0}, "replay")
    for t in ts:
        for r in t[1:]:
            log("replayed: %s" % json.dumps(r["e"]))
        log("info: %s" % json.dumps(t[0].get("info"))[:800])
    judge(prop, verdict, sbin, bbin, ts, "replay", stats)
    return verdict.finish()


def run(prop, tier):
    t0 = time.time()
    conf = CFG[prop]
    verdict = vlib.Verdict(prop)
    stats = {"events": 0, "traces": 0, "flaky": 0}
    tot_states = tot_trans = 0
    samples, ncases, ncontacts, nrandom, nbo, nprocs = [], 0, 0, 0, 0, 0
    distinct = set()

    # 1. the property on the bounded model, first; the model's configurations are the replay plan
    plans = []
    bot = None
    import concurrent.futures
    with concurrent.futures.ThreadPoolExecutor(max_workers=3) as ex:     # at most 3 TLC runs at a time
        mcs = list(ex.map(lambda c: model_check(prop, c), conf[tier]))
    for cfgname, (cases, b, st, tr) in zip(conf[tier], mcs):
        bot = bot or b
        tot_states += st
        tot_trans += tr
        plans.append((cfgname, cases))
    sbin, bbin = build(prop)

    # 2. direction A (every exported configuration) and B (random concrete shapes) on the real code
    all_traces = []
    for ci, (cfgname, cases) in enumerate(plans):
        wd = vlib.workdir(prop, "run_" + cfgname)
        nrand = 0
        if ci == 0:
            nrand = {"C17": (400, 6000), "C18": (300, 4000)}[prop][tier == "thorough"]
        groups = {}
        for c in cases:
            groups.setdefault(proc_key(c), []).append(c)
        pure = [k for k in groups if k[0] == "pure"]
        traces, nplanned, ncon = [], 0, 0
        for gi, k in enumerate(sorted(groups)):
            share = 0
            if nrand and k in pure:
                share = nrand // len(pure) + (nrand % len(pure) if k == sorted(pure)[0] else 0)
            plan = {"mode": conf["mode"], "cases": groups[k], "random": share, "n0": prop == "C17" and ci == 0 and gi == 0, "replays": [],
                    "lanes": (48 if prop == "C17" else 8) if k[0] != "hist" else 1, "tryms": 500, "onlycas": list(k[1]),
                    "backoffms": BACKOFF_MS if k[0] == "retry" else 0}
            ts, summ = run_signer(prop, sbin, wd, plan, "main%d" % gi)
            want = len(groups[k]) + share + (4 if plan["n0"] else 0)
            if summ["cases"] != want or len(ts) != want:
                raise NoVerdict("the harness did not execute every planned case (%s of %d)" % (summ.get("cases"), want))
            # a timing case whose wall time shows that the machine was too slow is never judged
            slow = [t for t in ts if (t[0].get("info") or {}).get("discard")]
            if slow:
                stats["slow_discarded"] = stats.get("slow_discarded", 0) + len(slow)
                log("%d case(s) not judged: the machine was too slow for their timing (wall %s ms)" % (len(slow), [t[0]["info"].get("wallms") for t in slow][:8]))
                if len(slow) > max(3, 0.2 * len(ts)):
                    raise NoVerdict("too many timing cases ran too slowly to be judged (%d of %d)" % (len(slow), len(ts)))
                ts = [t for t in ts if not (t[0].get("info") or {}).get("discard")]
            traces += ts
            ncon += summ["contacts"]
        summ = {"contacts": ncon}
        nprocs += len(groups)
        ncases += len(traces)
        ncontacts += summ["contacts"]
        nrandom += nrand
        for t in traces:
            for r in t[1:]:
                e = r["e"]
                if e["op"] == "contact":
                    x = t[0]["eps"][e["ep"] - 1] if 0 < e["ep"] <= len(t[0]["eps"]) else {"id": "?", "vmax": "?", "pol": "?", "cls": "?"}
                    distinct.add(("contact", e["ep"], x["id"], x["vmax"], x["pol"], x["cls"], e["hs"], e["ver"], e["cc"], e["rpc"], e["same"]))
                elif e["op"] == "return":
                    distinct.add(("return", len(t[0]["eps"]), e["err"], len(e["certs"]), len(e["cm"])))
        for t in (traces[len(traces) // 3], traces[-1]):
            if len(samples) < 4:
                samples.append(sample_of(t))
        all_traces += traces
        del traces
    judge(prop, verdict, sbin, bbin, all_traces, "all", stats)     # one TLC trace-validation run over everything recorded
    del all_traces
    if prop == "C17":
        if not bot:
            raise NoVerdict("TLC did not export the backoff class table")
        wd = vlib.workdir(prop, "run_backoff")
        bcases = backoff_cases(bot)
        traces, summ = run_backoff(prop, bbin, wd, {"cases": bcases, "draws": 200, "random": 300 if tier == "quick" else 5000}, "main")
        if summ["cases"] != len(traces) or len(traces) < len(bcases):
            raise NoVerdict("the backoff harness did not execute every planned case")
        nbo = len(traces)
        for t in traces:
            b = t[1]["e"]["bo"]
            distinct.add(("backoff", b["att0"], b["min"]["neg"], b["max"]["big"], (t[0]["info"]["case"]["class"]), t[0]["info"]["pow"]))
        judge(prop, verdict, sbin, bbin, traces, "backoff", stats)
        samples.append([{"case": traces[7][0]["info"]["case"], "raw": traces[7][0]["info"]["raw"]}, traces[7][1]["e"]])
    if ncases == 0 or ncontacts == 0:
        raise NoVerdict("vacuous run: no case / no contact was observed")
    cov = {"states": tot_states, "transitions": tot_trans, "traces_validated_against_impl": stats["traces"],
           "samples": samples, "exhaustive": True, "model_cfgs": conf[tier],
           "configurations_replayed": ncases - nrandom, "random_cases": nrandom, "backoff_inputs": nbo, "backoff_draws_each": 200 if nbo else 0,
           "endpoint_contacts_observed": ncontacts, "harness_processes": nprocs, "evaluations": stats["events"], "distinct_nontrivial": len(distinct),
           "rule": "every configuration of the bounded model (endpoint list x outcome / identity classes x bundle) is executed on the real "
                   "(*Signer).Sign with harness CA servers; every recorded step (what each server saw, what Sign returned, extremes of the "
                   "backoff draws) is judged by TLC with the property's step formula; distinct_nontrivial = distinct observed step labels",
           "discarded_after_reexecution": stats["flaky"], "spec_drift": stats.get("drift", 0),
           "struct_literal_cases_dropped": stats.get("literal_dropped", 0), "timing_cases_not_judged": stats.get("slow_discarded", 0)}
    rc = verdict.finish()
    ass = ["the CA is a harness gRPC Signing server (stub replies scripted per endpoint); C17 uses in-memory connections with the dial options "
           "of a real NewSigner (Retries = 1, so no real backoff sleeps), C18 real TLS over 127.0.0.1-4",
           "endpoint names are IP literals (no DNS in the sandbox); a 'deadline' endpoint is one that never answers within the per-try timeout",
           "backoff draws use the code's own time-seeded generator (200 draws per input); the bound is evaluated in float64 and widened by one ulp and 1 ns"]
    vlib.write_evidence(prop, tier, "model_checking", cov, ass, time.time() - t0, len(verdict.violations))
    return rc
