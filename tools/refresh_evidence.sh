#!/bin/bash
# runs every registered quick check on /repo (4 at a time) so that /verif/evidence/*.json describe the current tree
cd /verif
python3 -c "import json;print(' '.join(c['property_id'] for c in json.load(open('MANIFEST.json'))['checks']))" | tr ' ' '\n' | \
  xargs -P 4 -I{} sh -c 'bin/check {} --tier quick > out/refresh_{}.out 2> out/refresh_{}.err; echo "{} rc=$? $(grep -c "^VIOLATION" out/refresh_{}.out) violations $(grep -c "^KNOWN-FINDING" out/refresh_{}.out) known"'
tools/validate.sh
