#!/usr/bin/env python3
"""One-off probes of the real gensign binary through the SYS harness (see notes/system.md, "Found"): every probe is the all-good base
scenario with a modification; prints what was observed and what TLC says about E1..E5.  usage: tools/system_probe.py"""
import sys, json, random, os
sys.path.insert(0, os.path.dirname(os.path.abspath(__file__)))
for k, v in dict(GOFLAGS="-mod=mod", GOPROXY="off", GOSUMDB="off", GOTOOLCHAIN="local").items():
    os.environ.setdefault(k, v)
import vlib, fam_system as F

rng = random.Random(5)


def case(cid, mod=None, concmod=None, pa="user"):
    sc = json.loads(json.dumps(F.BASE))
    sc["pa"] = pa
    sc.update(mod or {})
    run = F.concretize(sc, rng)
    run["conc"].update(concmod or {})
    return {"id": cid, "pa": pa, "runs": [run]}


CASES = [
    case("otel_collector_down", None, {"cfgx": {"otel": {"enabled": True, "otel_collector_endpoint": "127.0.0.1:1", "client_cert_path": "/nonexistent.crt",
                                                          "client_key_path": "/nonexistent.key", "ca_cert_path": "/nonexistent.ca"}}}),
    case("handler_enable_false", None, {"hsecx": {"enable": False}}),
    case("request_timeout_overflow", None, {"rt": 9223372037}),
    case("validity_wraps_key_lifetime", {"val": 4294963696}),
]

if __name__ == "__main__":
    wd = vlib.workdir("SYS", "probe")
    g = F.build_gensign(os.path.join(vlib.run_root("SYS"), "bin"))
    b = F.build_harness()
    traces, summ = F.run_harness(b, g, CASES, wd, "probe", workers=2)
    rej, _ = F.judge(traces, "probe")
    print("rejected by TLC:", {k: v for k, v in rej.items() if v})
    for tr in traces:
        for r in tr[1:]:
            print(tr[0]["tid"], "|", F.describe(r))
            print("   ms=%s stderr=...%s" % (r["info"]["ms"], r["info"]["stderr"][-400:].replace("\n", " / ")))
            print("   agent after:", sorted(x["t"] + "/" + x["lb"] + "/" + x["cls"] for x in r["post"]["ag"]))
