#!/bin/bash
# re-runs every filed seed against the registered quick checks (4 at a time, never two seeds of one property at once)
cd /verif
ls seeded | sed 's/_.*//' | sort -u > /tmp/seedall_props.txt
run_prop(){ for s in $(ls seeded | grep "^$1_"); do tools/seedtest.sh /verif/seeded/$s $1 2>&1 | grep "^seed="; done; }
export -f run_prop
cat /tmp/seedall_props.txt | xargs -P 4 -I{} bash -c 'run_prop {}'
python3 tools/seedtable.py > notes/seeds_table.md
