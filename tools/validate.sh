#!/bin/sh
# validates MANIFEST.json and every evidence file it names against the schemas
python3-vt - <<'PY'
import json, jsonschema, os, sys
V='/verif'
m=json.load(open(V+'/MANIFEST.json'))
jsonschema.validate(m, json.load(open('/root/.vp/MANIFEST.schema.json')))
es=json.load(open('/root/.vp/EVIDENCE.schema.json'))
props=[json.loads(l)['id'] for l in open(V+'/properties.jsonl')]
claimed=[c['property_id'] for c in m['checks']]
na=[x['property_id'] for x in m.get('not_applicable',[])]
assert sorted(claimed+na)==sorted(props), (claimed, na)
bad=0
for c in m['checks']:
    p=os.path.join(V,c['evidence_file'])
    if not os.path.exists(p): print('MISSING evidence', p); bad+=1; continue
    e=json.load(open(p))
    try:
        jsonschema.validate(e, es)
        assert e['property_id']==c['property_id'] and e['level']==c['level_claimed']['category'], (e['level'], c['level_claimed']['category'])
    except Exception as ex:
        print('INVALID', p, str(ex)[:300]); bad+=1
print('manifest ok: %d checks, %d not_applicable, %d evidence problems' % (len(claimed), len(na), bad))
sys.exit(1 if bad else 0)
PY
