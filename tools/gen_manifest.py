#!/usr/bin/env python3
"""Regenerates /verif/MANIFEST.json from the table below (kept valid at all times)."""
import json, os
V = os.path.dirname(os.path.dirname(os.path.abspath(__file__)))
props = [json.loads(l) for l in open(os.path.join(V, "properties.jsonl"))]

MC = "model_checking"
CHECKS = {
    "C07": dict(engine="shim", design="5/C07", technique="TLA+ ShimAgent spec: TLC exhaustive + LTS replay on real shimagent.Server + TLC trace validation",
        text="TLC checks the step formula C07_Step on every transition of the bounded ShimAgent model (all histories of add/add-hard/remove/remove-all/list/signers/sign/direct removal/tick over 2 keys x 3-4 certificates of every validity class, both upstream modes); every exported transition is replayed on a real Server over a real x/crypto agent and must reproduce result and state; random histories with concrete keys/certificate windows are validated by TLC against TraceShim. Model checking is the right level: the property quantifies over histories, which the bounded model enumerates completely and the replay binds to the code. Added by the seed rounds: environment action DirectAdd, security-key (sk-*) identities through a software FIDO authenticator, a universe with three certificates over one key (two out-of-window certificates over one key, one in memory and one in the agent), an operation watchdog (a call that does not return is rejected).",
        note="bounded universe (<=4 certificates, 2 epochs); validity realised with wall-clock certificates (boundary second never judged); underlying agent = x/crypto keyring behind the harness proxy; unexported Server fields read through an in-package accessor"),
    "C08": dict(engine="shim", design="5/C08", technique="TLA+ ShimAgent spec: TLC exhaustive + LTS replay + TLC trace validation (lock family)",
        text="C08_Step is model-checked over all interleavings of lock/unlock (right/wrong passphrases, direct locks of the underlying agent, refused requests) with every other operation; every transition is replayed on the real Server and random lock histories are validated by TLC. Added by the seed rounds: concurrent raw forwards while locked (ForwardStorm), a List / RemoveAll arriving while a Lock is held inside its upstream request (LockRace: served entirely before or entirely after), passphrases instantiated as near misses of each other (trailing line terminator, case, blanks), the right passphrase must unlock.",
        note="assumes nobody unlocks the underlying agent directly while the shim holds it locked; bounded universe"),
    "C09": dict(engine="shim", design="5/C09", technique="TLA+ ShimAgent spec: TLC exhaustive (both modes) + LTS replay + TLC trace validation",
        text="C09_Step (exact listing counts per identity in both modes, refusal of hidden certificates, removability) is model-checked over all histories in both upstream modes and replayed/validated on the real Server with KeyIDs of every YSSHCA type, near-misses and free text. Added by the seed rounds: KeyID texts with trailing data, null / empty principals and unknown extra members, security-key certificates, identities added behind the shim's back.",
        note="KeyID classes abstracted to decodes/does-not-decode in the model, instantiated concretely (8 YSSHCA shapes, 11 non-YSSHCA shapes) by the harness"),
    "C10": dict(engine="shim", design="5/C10", technique="TLA+ ShimAgent spec with fault actions: TLC exhaustive + LTS replay + fault-step trace validation",
        text="C10_Step (hardware-certificate admission, exact pass-through listing, signature under the certificate key, add/remove effects, byte-identical Forward, construction and every fault kind of the underlying agent on every request kind) is model-checked on the fault model and every deterministic transition replayed; faulted steps and construction through New() over a unix socket are recorded and judged by TLC. Added by the seed rounds: replies delivered in fragments, boundary-size forwards (4 KiB, 64 KiB, 16 MiB, each -6..0), SignWithAlgorithm with the key's own algorithm on every returned signer, an operation watchdog.",
        note="fault kinds: failure reply, garbage, wrong-kind reply, oversized frame, closed connection, applied to the first request of a chosen kind per operation; one known finding (wrong-kind reply panics inside x/crypto) is listed in known_findings.txt"),
    "C11": dict(engine="conc", design="5/C11", technique="TLA+ ShimConc micro-step model with MEASURED lock table (TLC, 2-3 threads, safety + liveness) + forced-overlap schedules under the race detector + TLC linearisation search (TraceLin) of concurrent batches",
        text="The lock mode of Server.mu during every upstream request of every operation is measured on the real code (TryLock/TryRLock probes while the proxy withholds the reply) and written into the ShimConc configuration; TLC checks table/wire mutual exclusion, own-reply and completion for all interleavings of 2 (quick) / 3 (thorough) threads over all operation kinds. Every ordered pair of operations is run with A suspended inside each of its upstream requests while B starts (race detector + frame-aware monitor on the single upstream connection + watchdog), and batches of 2..16 goroutines are recorded and TLC searches a sequential ordering of the ShimAgent design that explains every result and the final state. Added by the seed rounds: error exits in the model (a failed exchange must still release; measured Leaky set from fault injection at every upstream request), a slow underlying agent (requests left unanswered for 12 / 35 s), every forced-overlap experiment also judged by the linearisation search, and the connection level: ConnServe.tla (handler-local buffers, own reply, exactly-once forwarding; a deliberately broken variant must be refuted) validated against 2..16 client connections served by the real yubiagent.ServeAgent on one server.",
        note="verdicts come only from real-code observations (race report, overlapping frames, hang, batch without sequential explanation); a model counterexample that is not reproduced is exit 2; Prog (segment sequence per operation) is transcribed by reading, LockMode and raw/call are measured"),
    "C06": dict(engine="attest", design="5/C06 and notes/attest.md", level="model_checking",
        technique="explicit TLA+ decision model of EMSA-PKCS1-v1_5 verification + chain/label/key-type context (Attest.tla), TLC exhaustive over the full case product with sanity theorems, every exported case materialised on real RSA keys (harness-side EM^d mod N) and judged by TLC trace validation",
        text="TLC enumerates the full product hashes x 2 DigestInfo layouts x every single mutation of the encoded message (every region, every octet class, shifted/shortened padding, prefix or digest of another hash) x 17 signature-algorithm labels x 9 chain relations x device key types (342 261 distinct states) and checks layout uniqueness, prefix-freeness, 'every mutation is invalid' and 'acceptance implies every clause of the statement'; every exported case is materialised on real RSA device keys of 1024/2048/3072 (thorough: 1536, 4096) bits - the harness owns the private key and computes EM^d mod N itself so any encoded message can be presented - and the verdict of (*Attestor).Attest is judged by TLC (TraceAttest) against Accept(case); random bit flips of signature/body, all labels, non-RSA device keys in direction B. The case classes grew in seed rounds 4-8 (label vs scheme, accepting predecessors, odd modulus sizes, time on a long-lived Attestor, buffer reuse / transport-dead endpoints, process history of trust stores, request contexts, client-auth policy and CA hints, request-content classes, same-subject CAs, multi-call histories, expiry boundaries): see the notes file of the family.",
        note="decision-table property: TLC enumerates and judges; RSA arithmetic, hashing and X.509 minting are the harness's and Go's; labels 7..12 (DSA/ECDSA-with-SHA labels on an RSA key) are left open because the statement neither accepts nor rejects them; e = 65537 only"),
    "C16": dict(engine="attest", design="5/C16 and notes/attest.md", level="exploration",
        technique="TLC-enumerated certificate shapes / PEM bundles / serial-extension values (Attest.tla) minted by crypto/x509, differential comparison with crypto/x509.ParseCertificate, ModHex function and injectivity theorems checked by TLC, byte mutations for crash freedom; all recorded calls judged by TLC",
        text="TLC enumerates certificate shapes (key type incl. RSA without the NULL parameter x signature algorithm x extension subsets x clean/trailing data), PEM bundles of 0..5 certificates with leading text / trailing whitespace / garbage, and serial-extension values of length 0..8, with the ModHex function and its injectivity on serial numbers as theorems; every shape is minted with crypto/x509 and parsed by both parsers (field-by-field equality recorded), every ModHex and PEM case executed, ~29 000 byte mutants for crash freedom; TLC judges every recorded call. Exploration level: the agreement with the standard parser is a differential oracle computed by the harness. The case classes grew in seed rounds 4-8 (label vs scheme, accepting predecessors, odd modulus sizes, time on a long-lived Attestor, buffer reuse / transport-dead endpoints, process history of trust stores, request contexts, client-auth policy and CA hints, request-content classes, same-subject CAs, multi-call histories, expiry boundaries): see the notes file of the family.",
        note="ASN.1 fidelity is a differential oracle in the harness; TLC fixes the verdict class of every shape and computes the expected ModHex string from the recorded octets; shapes are those x509.CreateCertificate can emit"),
    "C17": dict(engine="signer", design="5/C17 and notes/signer.md", level="model_checking",
        technique="explicit TLA+ spec (Signer.tla) + TLC exhaustive model checking; exhaustive configuration replay and seeded random reply shapes on the real code via in-package harness over bufconn; TLC trace validation with per-property reporting action constraints",
        text="TLC checks C17_Step on every configuration of the bounded model (endpoint lists 0..4 over 7 (quick) / 11 (thorough) outcome templates, lists <= 2 over the 16 gRPC status codes; bounded backoff model); every configuration is executed on the real (*Signer).Sign against per-endpoint stub Signing servers (server-side arrivals with request comparison, return values) and the extremes of 200 backoff draws per input class are recorded; every recorded step is validated by TLC against TraceSigner. Model checking fits: the property quantifies over fault vectors, which the bounded model enumerates and the replay binds to the code. The case classes grew in seed rounds 4-8 (label vs scheme, accepting predecessors, odd modulus sizes, time on a long-lived Attestor, buffer reuse / transport-dead endpoints, process history of trust stores, request contexts, client-auth policy and CA hints, request-content classes, same-subject CAs, multi-call histories, expiry boundaries): see the notes file of the family.",
        note="endpoint names are IP literals; 'deadline' = no answer within the per-try timeout; Retries fixed to 1 so real backoff sleeps are not executed (the delay function is checked in isolation, its draws come from the code's own time-seeded generator); the upper delay bound is widened by one ulp / 1 ns"),
    "C18": dict(engine="signer", design="5/C18 and notes/signer.md", level="model_checking",
        technique="explicit TLA+ spec (Signer.tla) + TLC exhaustive model checking; configuration replay on the real NewSigner/Sign against real TLS gRPC servers over loopback TCP with certificates minted per run; TLC trace validation",
        text="TLC checks C18_Step on every endpoint list (<= 2 over 27 identity/version/client-certificate-policy templates and <= 3 over 9 identity/version kinds in the quick tier; <= 3 over 27 in the thorough tier) x 4 bundle variants, identities incl. genuine under either bundle file, foreign CA, host-trusted CA outside the bundle, self-signed, expired, wrong name, TLS<=1.1 only; every configuration is executed with a signer from the real NewSigner against real TLS gRPC servers on 127.0.0.1-4; servers record handshake result, negotiated version and the client certificate presented; TLC validates every step. The case classes grew in seed rounds 4-8 (label vs scheme, accepting predecessors, odd modulus sizes, time on a long-lived Attestor, buffer reuse / transport-dead endpoints, process history of trust stores, request contexts, client-auth policy and CA hints, request-content classes, same-subject CAs, multi-call histories, expiry boundaries): see the notes file of the family.",
        note="name matching is exercised through IP SANs only (no DNS in the sandbox); the host trust store is controlled through SSL_CERT_FILE/SSL_CERT_DIR set by the harness; Go's TLS and gRPC stacks are trusted for the handshake itself"),
}

import re, glob
FAM_OF = {"C01": "gensign", "C02": "gensign", "C03": "gensign", "C04": "gensign", "C05": "keyid", "C19": "keyid", "C06": "attest",
          "C16": "attest", "C12": "wire", "C13": "wire", "C20": "wait", "C14": "reqparam", "C15": "reqparam", "C17": "signer", "C18": "signer"}
READY = [x.strip() for x in open(os.path.join(V, "tools", "ready.txt")).read().split() if x.strip()] if os.path.exists(os.path.join(V, "tools", "ready.txt")) else []


def notes_entries(fam):
    """Parse '## MANIFEST entries' of notes/<fam>.md: blocks 'Cxx' then '* level: `..`. text: "..."', '* level_note: ".."', '* technique: ".."'."""
    path = os.path.join(V, "notes", fam + ".md")
    if not os.path.exists(path):
        return {}
    txt = open(path).read()
    m = re.search(r"^##+ .*MANIFEST.*$", txt, re.M | re.I)
    if not m:
        return {}
    sec = txt[m.end():]
    nxt = re.search(r"^## ", sec, re.M)
    if nxt:
        sec = sec[:nxt.start()]
    out = {}
    blocks = re.split(r"^\W*(C\d\d)\b", sec, flags=re.M)
    for i in range(1, len(blocks) - 1, 2):
        pid, body = blocks[i], " ".join(blocks[i + 1].split())
        def grab(key):
            mm = re.search(r'(?<![a-z_])' + key + r'\W*[:=]\W*"(.*?)"(?=\s*\.?\s*(\*|$|level_note|technique|text))', body)
            return mm.group(1).strip() if mm else None
        lvl = re.search(r"level\W*:\W*`?(exploration|fault_enumeration|model_checking|proof|translation_validation|other)\b", body)
        out[pid] = {"level": lvl.group(1) if lvl else "model_checking", "text": grab("level text") or grab("text"), "note": grab("level_note"), "technique": grab("technique")}
    return out


for pid in READY:
    if pid in CHECKS or pid not in FAM_OF:
        continue
    ents = notes_entries(FAM_OF[pid])
    e = ents.get(pid)
    if e and not e["technique"]:
        e["technique"] = next((x["technique"] for x in ents.values() if x["technique"]), None)
    if not e or not e["text"]:
        raise SystemExit("no MANIFEST entry text for %s in notes/%s.md" % (pid, FAM_OF[pid]))
    CHECKS[pid] = dict(engine=FAM_OF[pid], design="5/" + pid + " and 11", technique=e["technique"] or "TLA+ spec + TLC + conformance harness",
                       text=e["text"], note=e["note"] or "see notes/%s.md" % FAM_OF[pid], level=e["level"])

checks = []
for pid, c in sorted(CHECKS.items()):
    checks.append({
        "property_id": pid,
        "quick_cmd": "bin/check %s --tier quick" % pid,
        "thorough_cmd": "bin/check %s --tier thorough" % pid,
        "evidence_file": "evidence/%s.json" % pid,
        "replay_cmd_template": "bin/check %s --replay {path}" % pid,
        "engine": c["engine"],
        "level_claimed": {"category": c.get("level", MC), "text": c["text"], "design_ref": "DESIGN.md section " + c["design"]},
        "level_note": c["note"],
        "technique": c["technique"],
    })
m = {
    "version": 1,
    "setup_cmd": "sh tools/setup.sh",
    "hooks": {"guard": "verif",
              "enable": "go test -c -vet=off -tags verif -overlay=<generated> (harness sources under /verif/harness are overlaid into the module at check time; /repo carries no hook code)",
              "baseline_off_cmd": "cd /repo && GOFLAGS=-mod=mod GOPROXY=off GOSUMDB=off GOTOOLCHAIN=local go test -json -vet=off -count=1 -timeout 25m ./...",
              "source_commits": [], "add_only": True},
    "engines": [
        {"name": "shim", "path": "tools/fam_shim.py", "serves_properties": ["C07", "C08", "C09", "C10"],
         "kind_free_text": "spec/ShimAgent.tla + MCShim/TraceShim, TLC, Go harness harness/shim overlaid into agent/shimagent"},
        {"name": "conc", "path": "tools/fam_conc.py", "serves_properties": ["C11"],
         "kind_free_text": "spec/ShimConc.tla + MCConc (measured lock table) + TraceLin.tla, TLC, Go harness harness/conc built with -race"},
    ],
    "engines_extra": None,
    "checks": checks,
    "not_applicable": [{"property_id": p["id"], "reason": "check not built yet (build in progress, see DESIGN.md section 9)"}
                       for p in props if p["id"] not in CHECKS],
    "notes": "every check: exit 0 held / exit 1 + VIOLATION line / exit 2 no verdict (tool or harness problem, never a violation). known_findings.txt lists recorded findings and repaired defects.",
}
del m["engines_extra"]
for fam in sorted(set(FAM_OF[p] for p in CHECKS if p in FAM_OF)):
    m["engines"].append({"name": fam, "path": "tools/fam_%s.py" % fam, "serves_properties": sorted(p for p in CHECKS if FAM_OF.get(p) == fam),
                         "kind_free_text": "TLA+ spec + TLC + Go harness under harness/%s, see notes/%s.md" % (fam, fam)})
for c in m["checks"]:
    assert c["level_claimed"]["category"] in ("exploration", "fault_enumeration", "model_checking", "proof", "translation_validation", "other"), c
json.dump(m, open(os.path.join(V, "MANIFEST.json"), "w"), indent=1)
print("MANIFEST.json: %d checks, %d not_applicable" % (len(checks), len(m["not_applicable"])))
