#!/bin/bash
# usage: tools/thoroughall.sh [Cxx ...]  - runs the thorough tier of the given (default: all) properties on /repo, 3 at a time; every line must say rc=0
cd /verif
props=${@:-$(seq -f "C%02g" 1 20)}
run(){ s=$(date +%s); bin/check $1 --tier thorough > /tmp/thorough_$1.out 2>/tmp/thorough_$1.err; rc=$?; echo "thorough=$1 rc=$rc violations=$(grep -c '^VIOLATION' /tmp/thorough_$1.out) known=$(grep -c '^KNOWN-FINDING' /tmp/thorough_$1.out) wall=$(( $(date +%s)-s ))s"; }
export -f run
for p in $props; do echo $p; done | xargs -P 3 -I{} bash -c 'run {}' | tee -a notes/thorough_results.txt
