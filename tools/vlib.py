"""Common machinery for the /verif checks: TLC runs, harness builds, trace validation,
known findings, evidence files, verdict reporting.

Exit codes of a check: 0 = property held on everything explored, 1 = VIOLATION (real code observed
breaking the property), 2 = no verdict (tool/harness problem, time-out, vacuous run)."""
import json, os, re, shutil, subprocess, sys, time, hashlib

VERIF = os.path.dirname(os.path.dirname(os.path.abspath(__file__)))
REPO = os.environ.get("VERIF_REPO", "/repo")
OUT = os.path.join(VERIF, "out")
SPEC = os.path.join(VERIF, "spec")
HARNESS = os.path.join(VERIF, "harness")
MODPATH = "github.com/theparanoids/ysshra"

GOENV = dict(GOFLAGS="-mod=mod", GOPROXY="off", GOSUMDB="off", GOTOOLCHAIN="local")


class NoVerdict(Exception):
    """Raised when a run cannot produce a verdict (exit 2)."""


def seed():
    try:
        return int(os.environ.get("VERIF_SEED", "1"))
    except ValueError:
        return 1


def log(*a):
    print(*a, file=sys.stderr, flush=True)


RUN_ID = "run_%d" % os.getpid()
_run_dirs = set()


def _cleanup_runs():
    if os.environ.get("VERIF_KEEP") == "1":
        return
    for d in _run_dirs:
        shutil.rmtree(d, ignore_errors=True)


import atexit
atexit.register(_cleanup_runs)


def run_root(prop):
    """Scratch root of THIS process for a property: concurrent runs of the same check (quick and thorough, a replay,
    a mutant self-test) never share a directory. Removed at exit unless VERIF_KEEP=1; replay files live outside it."""
    root = os.path.join(OUT, prop)
    d = os.path.join(root, RUN_ID)
    if d not in _run_dirs:
        os.makedirs(d, exist_ok=True)
        _run_dirs.add(d)
        # leftovers of killed runs (older than 3 h)
        try:
            for x in os.listdir(root):
                px = os.path.join(root, x)
                if x.startswith("run_") and px != d and time.time() - os.path.getmtime(px) > 3 * 3600:
                    shutil.rmtree(px, ignore_errors=True)
        except OSError:
            pass
    return d


def workdir(prop, sub):
    d = os.path.join(run_root(prop), sub)
    shutil.rmtree(d, ignore_errors=True)
    os.makedirs(d)
    return d


# ----------------------------------------------------------------------------------------------
# TLC

class TLCResult:
    def __init__(self):
        self.stdout = ""
        self.generated = 0
        self.distinct = 0
        self.depth = 0
        self.violated = None      # name of the violated property / invariant
        self.error = None         # other error text
        self.trace_l = None       # value of variable l in the last state of an error trace
        self.rc = 0
        self.wall = 0.0
        self.coverage_zero = []


def tlc(wd, module, cfg, workers=8, timeout=900, extra=None, heap=None, simulate=None, deque=False, coverage=False, stream_tag=None):
    """Run TLC in wd (spec files are copied there first). Returns TLCResult.
    stream_tag: lines starting with <<"TAG" are written to <wd>/<TAG>.lines instead of being kept in memory
    (for exports of millions of transitions); read them back with tlc_json_file()."""
    for f in os.listdir(SPEC):
        if f.endswith(".tla") or f.endswith(".cfg"):
            shutil.copy(os.path.join(SPEC, f), wd)
    md = os.path.join(wd, "md_" + os.path.splitext(os.path.basename(cfg))[0] + "_%d" % int(time.time() * 1000 % 1e9))
    jopts = []
    if deque:
        jopts.append("-Dtlc2.tool.queue.IStateQueue=StateDeque")
    cmd = ["java", "-XX:+UseParallelGC", "-Xss64m"] + ([heap] if heap else ["-Xmx8g"]) + jopts + [
        "-cp", "/opt/veriftools/tla/tla2tools.jar:/opt/veriftools/tla/CommunityModules-deps.jar",
        "tlc2.TLC", "-workers", str(workers), "-metadir", md, "-config", cfg]
    if coverage:
        cmd += ["-coverage", "1"]
    if simulate:
        cmd += ["-simulate", simulate]
    cmd += (extra or []) + [module]
    t0 = time.time()
    env = dict(os.environ)
    env["TMPDIR"] = wd   # SANY scratch dirs stay inside the work dir
    env["JAVA_TOOL_OPTIONS"] = env.get("JAVA_TOOL_OPTIONS", "") + " -Djava.io.tmpdir=" + wd
    r = TLCResult()
    if stream_tag:
        pre = ('<<"%s", ' % stream_tag).encode()
        keep = []
        with subprocess.Popen(cmd, cwd=wd, stdout=subprocess.PIPE, stderr=subprocess.STDOUT, env=env) as proc, \
                open(os.path.join(wd, stream_tag + ".lines"), "wb") as sf:
            try:
                for line in proc.stdout:
                    if line.startswith(pre):
                        sf.write(line)
                    else:
                        keep.append(line)
                    if time.time() - t0 > timeout:
                        proc.kill()
                        raise NoVerdict("TLC timed out after %ds on %s/%s" % (timeout, module, cfg))
                proc.wait()
            finally:
                if proc.poll() is None:
                    proc.kill()
        r.rc = proc.returncode
        r.stdout = b"".join(keep).decode("utf-8", "replace")
    else:
        try:
            p = subprocess.run(cmd, cwd=wd, stdout=subprocess.PIPE, stderr=subprocess.STDOUT, timeout=timeout, env=env)
        except subprocess.TimeoutExpired:
            subprocess.run(["pkill", "-f", "metadir " + md])
            raise NoVerdict("TLC timed out after %ds on %s/%s" % (timeout, module, cfg))
        r.rc = p.returncode
        r.stdout = p.stdout.decode("utf-8", "replace")
    r.wall = time.time() - t0
    shutil.rmtree(md, ignore_errors=True)
    m = re.search(r"(\d+) states generated, (\d+) distinct states found", r.stdout)
    if m:
        r.generated, r.distinct = int(m.group(1)), int(m.group(2))
    m = re.search(r"depth of the complete state graph search is (\d+)", r.stdout)
    if m:
        r.depth = int(m.group(1))
    m = re.search(r"Error: (?:Action property|Invariant|Temporal properties|Property) ?(\S+)? (?:is|were) violated", r.stdout)
    if m:
        r.violated = m.group(1) or "temporal"
        ls = re.findall(r"^/\\ l = (\d+)", r.stdout, re.M)
        if ls:
            r.trace_l = int(ls[-1])
    elif "Error:" in r.stdout:
        i = r.stdout.index("Error:")
        r.error = r.stdout[i:i + 1500]
    if coverage:
        r.coverage_zero = re.findall(r"^<(\w+) line .*>: 0:0", r.stdout, re.M)
    return r


def tlc_json_file(wd, tag):
    """Iterate over the JSON payloads streamed to <wd>/<tag>.lines by tlc(stream_tag=tag)."""
    pre = '<<"%s", "' % tag
    with open(os.path.join(wd, tag + ".lines"), encoding="utf-8") as f:
        for line in f:
            line = line.rstrip("\n")
            if line.startswith(pre) and line.endswith('">>'):
                yield json.loads(json.loads('"' + line[len(pre):-3] + '"'))


def tlc_json_lines(stdout, tag):
    """Extract JSON payloads printed as <<"TAG", "json">> by PrintT(ToJson(..))."""
    out = []
    pre = '<<"%s", "' % tag
    for line in stdout.splitlines():
        if line.startswith(pre) and line.endswith('">>'):
            inner = line[len(pre):-3]
            out.append(json.loads(json.loads('"' + inner + '"')))
    return out


# ----------------------------------------------------------------------------------------------
# Go harness

def build_harness(name, pkg, overlay_files, race=False, outdir=None):
    """Compile a test binary of package pkg (relative to the repo root) with harness files overlaid.
    overlay_files: {path relative to repo root: absolute source path}. The verifh helper package is
    always overlaid."""
    # binaries are private to this process as well (outdir names the property: .../out/<prop>/bin)
    if outdir and os.path.basename(outdir) == "bin" and os.path.dirname(os.path.dirname(outdir)) == OUT:
        outdir = os.path.join(run_root(os.path.basename(os.path.dirname(outdir))), "bin")
    outdir = outdir or os.path.join(run_root("misc"), "bin")
    os.makedirs(outdir, exist_ok=True)
    rep = {}
    hdir = os.path.join(HARNESS, "verifh")
    for f in os.listdir(hdir):
        if f.endswith(".go"):
            rep[os.path.join(REPO, "verifh", f)] = os.path.join(hdir, f)
    for rel, src in overlay_files.items():
        rep[os.path.join(REPO, rel)] = src
    ov = os.path.join(outdir, name + ".overlay.json")
    with open(ov, "w") as f:
        json.dump({"Replace": rep}, f)
    binp = os.path.join(outdir, name + (".race" if race else "") + ".test")
    cmd = ["go", "test", "-c", "-vet=off", "-tags", "verif", "-overlay=" + ov, "-o", binp]
    if race:
        cmd.append("-race")
    cmd.append("./" + pkg + "/")
    env = dict(os.environ)
    env.update(GOENV)
    t0 = time.time()
    p = subprocess.run(cmd, cwd=REPO, stdout=subprocess.PIPE, stderr=subprocess.STDOUT, env=env, timeout=1200)
    if p.returncode != 0:
        raise NoVerdict("harness %s does not build against %s:\n%s" % (name, REPO, p.stdout.decode("utf-8", "replace")[-4000:]))
    log("[build] %s in %.1fs" % (binp, time.time() - t0))
    return binp


def run_harness(binp, test, env=None, timeout=1800, cwd=None, args=None):
    e = dict(os.environ)
    e.update(GOENV)
    e["VERIF_SEED"] = str(seed())
    e.update(env or {})
    cmd = [binp, "-test.run", "^" + test + "$", "-test.v", "-test.timeout", "%ds" % timeout] + (args or [])
    t0 = time.time()
    try:
        p = subprocess.run(cmd, cwd=cwd or os.path.dirname(binp), stdout=subprocess.PIPE, stderr=subprocess.PIPE, env=e, timeout=timeout + 30)
    except subprocess.TimeoutExpired:
        raise NoVerdict("harness %s timed out" % test)
    out = p.stdout.decode("utf-8", "replace")
    err = p.stderr.decode("utf-8", "replace")
    summ = None
    for line in out.splitlines():
        if line.startswith("VERIF-SUMMARY "):
            summ = json.loads(line[len("VERIF-SUMMARY "):])
    log("[harness] %s rc=%d in %.1fs %s" % (test, p.returncode, time.time() - t0, json.dumps(summ) if summ else ""))
    return p.returncode, out, err, summ


# ----------------------------------------------------------------------------------------------
# trace files

def read_ndjson(path):
    with open(path) as f:
        return [json.loads(x) for x in f if x.strip()]


def write_ndjson(path, recs):
    with open(path, "w") as f:
        for r in recs:
            f.write(json.dumps(r, separators=(",", ":")) + "\n")


def split_traces(recs):
    """Group records into traces: a trace starts at each 'reset' record."""
    traces = []
    for r in recs:
        if r.get("ev") == "reset" or not traces:
            traces.append([])
        traces[-1].append(r)
    return traces


def dedupe_traces(traces, ignore=("tid", "i", "info", "exp")):
    """Collapse traces with identical content (ignoring bookkeeping fields). Returns (unique traces, multiplicities)."""
    seen, uniq, mult = {}, [], []
    for t in traces:
        k = json.dumps([{a: b for a, b in r.items() if a not in ignore} for r in t], sort_keys=True)
        if k in seen:
            mult[seen[k]] += 1
        else:
            seen[k] = len(uniq)
            uniq.append(t)
            mult.append(1)
    return uniq, mult


def validate_traces(prop, wd, module, cfg_text, formulas, traces, strip=("exp", "info"), workers=1,
                    accept="TraceAccepted", rep_prefix="Rep"):
    """Validate traces (list of lists of records) against `module` with TLC in one run.
    formulas: names like "TC07"; the module defines for each an action constraint Rep<name without T>
    (e.g. RepC07) that prints <<"REJ", name, l>> for every rejected line and lets the run continue, so that
    every offending step of every trace is found.  The run must consume the whole file (POSTCONDITION).
    Returns ({formula: [(trace_index, line_in_trace)]}, stats)."""
    recs, owner = [], []
    for ti, t in enumerate(traces):
        for li, r in enumerate(t):
            recs.append({k: v for k, v in r.items() if k not in strip})
            owner.append((ti, li))
    write_ndjson(os.path.join(wd, "trace.ndjson"), recs)
    acs = " ".join(rep_prefix + (f[1:] if f.startswith("T") else f) for f in formulas)
    with open(os.path.join(wd, "Trace_run.cfg"), "w") as f:
        f.write(cfg_text + "\nACTION_CONSTRAINT %s\nPOSTCONDITION %s\nCHECK_DEADLOCK FALSE\n" % (acs, accept))
    r = tlc(wd, module, "Trace_run.cfg", workers=workers, timeout=3000)
    stats = {"events": len(recs), "wall": r.wall, "states": r.distinct}
    if r.violated or r.error or "Model checking completed. No error" not in r.stdout:
        raise NoVerdict("trace validation did not complete (the recorded file was not consumed to the end or TLC failed): %s\n%s"
                        % (r.violated or "", (r.error or r.stdout[-3000:])))
    rejected = {f: [] for f in formulas}
    for m in re.finditer(r'^<<"REJ", "(\w+)", (\d+)>>', r.stdout, re.M):
        f, l = m.group(1), int(m.group(2))
        if f in rejected:
            rejected[f].append(owner[l - 1])
    return rejected, stats


# ----------------------------------------------------------------------------------------------
# known findings, verdicts, evidence

def known_findings():
    """known_findings.txt: 'finding: property=Cxx key=<regex> <text>' and 'fixed: property=Cxx <commit> <text>'."""
    p = os.path.join(VERIF, "known_findings.txt")
    out = []
    if os.path.exists(p):
        for line in open(p):
            line = line.strip()
            m = re.match(r"finding:\s+property=(\S+)\s+key=(\S+)\s+(.*)", line)
            if m:
                out.append((m.group(1), m.group(2), m.group(3)))
    return out


class Verdict:
    def __init__(self, prop):
        self.prop = prop
        self.violations = []   # (key, text, replay)
        self.known = []
        self.notes = []

    def violation(self, key, text, replay):
        for (p, k, t) in known_findings():
            if p == self.prop and re.fullmatch(k, key):
                if (k, t) not in self.known:
                    self.known.append((k, t))
                return
        self.violations.append((key, text, replay))

    def finish(self):
        for k, t in self.known:
            print("KNOWN-FINDING: property=%s %s [%s]" % (self.prop, t, k))
        for key, text, replay in self.violations[:25]:
            print("VIOLATION property=%s replay=%s  (%s: %s)" % (self.prop, replay, key, text[:600]))
        if len(self.violations) > 25:
            print("(%d further violations of %s not listed)" % (len(self.violations) - 25, self.prop))
        sys.stdout.flush()
        return 1 if self.violations else 0


def write_evidence(prop, tier, level, coverage, assumptions, wall, violations):
    # runs against a scratch copy of the repository (mutant / seed self-tests) must not overwrite the evidence of /repo
    evdir = os.path.join(VERIF, "evidence") if os.path.realpath(REPO) == "/repo" else os.path.join(OUT, prop, "evidence_scratch")
    os.makedirs(evdir, exist_ok=True)
    ev = {"property_id": prop, "tier": tier, "seed": seed(), "level": level, "coverage": coverage,
          "assumptions": assumptions, "wall_s": round(wall, 2), "violations": violations}
    with open(os.path.join(evdir, prop + ".json"), "w") as f:
        json.dump(ev, f, indent=1, sort_keys=True)
    return ev


def save_replay(prop, name, payload):
    d = os.path.join(OUT, prop, "replay")
    os.makedirs(d, exist_ok=True)
    p = os.path.join(d, name)
    with open(p, "w") as f:
        if isinstance(payload, (list, dict)):
            if isinstance(payload, list):
                for r in payload:
                    f.write(json.dumps(r) + "\n")
            else:
                json.dump(payload, f, indent=1)
        else:
            f.write(str(payload))
    return p
