#!/bin/bash
# re-runs the property-preserving change sets under /verif/benign against the checks of the touched families: every line must say check_rc=0
cd /verif
declare -A T=( [C01]="C01 C02 C03 C04 C14" [C02]="C02 C01 C03 C05" [C03]="C03 C04 C01 C02" [C04]="C04 C01 C02 C03" [C05]="C05 C19 C09" [C06]="C06"
 [C07]="C07 C08 C09 C10 C11" [C08]="C08 C07 C10" [C09]="C09 C10 C07 C05" [C10]="C10 C07 C09 C11 C19" [C11]="C11 C07 C08 C10 C12 C20" [C12]="C12 C13 C20"
 [C13]="C13 C12 C20 C16" [C14]="C14 C15 C01" [C15]="C15 C14" [C16]="C16 C06 C13" [C17]="C17 C18" [C18]="C18 C17" [C19]="C19 C05" [C20]="C20 C12 C13 C11 C07" )
run(){ tools/benigntest.sh /verif/benign4/$1 ${T[$1]} 2>&1 | grep "^benign="; }
for b in $(ls benign4); do echo $b; done | xargs -P 3 -I{} bash -c "$(declare -p T); $(declare -f run); run {}" | tee notes/benign4_results.txt
