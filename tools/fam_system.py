"""SYS (beyond the listed properties): System.tla - the gensign command as a composition - checked with TLC and bound to the
REAL gensign binary (built from the working tree, only the two hard-coded paths of cmd/gensign/main.go read from the
environment) by scenario replay (A: every exported scenario) and seeded random histories (B), every recorded execution
judged by TLC with E1..E5 (spec/TraceSystem.tla)."""
import json, os, re, time, random, subprocess, shutil, collections
import vlib
from vlib import NoVerdict, log

PROP = "SYS"
PROPS = ["E1", "E2", "E3", "E4", "E5"]
HARNESS_SRC = os.path.join(vlib.HARNESS, "system", "zz_verif_system_test.go")
OVERLAY = {"verifsys/zz_verif_system_test.go": HARNESS_SRC}
CFG = {"quick": dict(cfg="MCSystem_q", nrand=300, workers=6), "thorough": dict(cfg="MCSystem_t", nrand=4000, workers=6)}

TRACE_CFG = """SPECIFICATION TraceSpec
CONSTANTS
  Scenarios = {}
  RemovePick <- TrRemovePick"""


def hx(s):
    return s.encode("utf-8").hex()


# ----------------------------------------------------------------------------------------------
# the binary under test

def build_gensign(outdir):
    """Build cmd/gensign from the tree in use.  The two hard-coded paths are the only thing replaced: the CURRENT main.go
    is copied with `confPath` / `logFile` renamed inside the const block and re-declared as variables read from the
    environment; everything else in main.go and in every package is what is in the tree."""
    src_path = os.path.join(vlib.REPO, "cmd", "gensign", "main.go")
    try:
        src = open(src_path).read()
    except OSError as e:
        raise NoVerdict("cannot read %s: %s" % (src_path, e))
    for name, env in (("confPath", "VERIF_CONF"), ("logFile", "VERIF_LOG")):
        rx = re.compile(r'^([ \t]*(?:const[ \t]+)?)%s([ \t]*=[ \t]*"[^"\n]*"[ \t]*)$' % name, re.M)
        if len(rx.findall(src)) != 1:
            raise NoVerdict("cmd/gensign/main.go: the constant %s = \"...\" was not found exactly once; the harness cannot redirect it" % name)
        src = rx.sub(lambda m: m.group(1) + name + "VerifOrig" + m.group(2), src)
        src += '\nvar %s = os.Getenv("%s")\n' % (name, env)
    if not re.search(r'^\s*"os"\s*$', src, re.M):
        raise NoVerdict("cmd/gensign/main.go no longer imports \"os\"")
    os.makedirs(outdir, exist_ok=True)
    gen = os.path.join(outdir, "main_gen.go")
    open(gen, "w").write(src)
    ov = os.path.join(outdir, "gensign.overlay.json")
    json.dump({"Replace": {src_path: gen}}, open(ov, "w"))
    binp = os.path.join(outdir, "gensign")
    env = dict(os.environ)
    env.update(vlib.GOENV)
    t0 = time.time()
    p = subprocess.run(["go", "build", "-overlay=" + ov, "-o", binp, "./cmd/gensign/"], cwd=vlib.REPO, stdout=subprocess.PIPE,
                       stderr=subprocess.STDOUT, env=env, timeout=1200)
    if p.returncode != 0:
        raise NoVerdict("cmd/gensign does not build in %s:\n%s" % (vlib.REPO, p.stdout.decode("utf-8", "replace")[-3000:]))
    log("[build] %s in %.1fs" % (binp, time.time() - t0))
    return binp


def build_harness():
    return vlib.build_harness("system", "verifsys", OVERLAY, outdir=os.path.join(vlib.OUT, PROP, "bin"))


# ----------------------------------------------------------------------------------------------
# concrete values for the abstract classes

ALGO_NAMES = {0: ["unknown", "Unknown", "0"], 1: ["rsa", "RSA", "Rsa", "1"], 2: ["dsa", "2"], 3: ["ecdsa", "ECDSA", "EcDsa", "3"], 4: ["ed25519", "4"], 7: ["7"]}
ALPHABETS = ["abcdefghijklmnopqrstuvwxyz0123456789", "ABCDEFGHIJKLMNOPQRSTUVWXYZ-_.", "\"\\{}[]:,'`", "<>&;|$*?!#%=+~^()",
             "üéñßøåçÆ", "中文日本語한국어", "אבגד مرحبا", "😀🔑", "\u00a0\u2003\u200d\ufeff\u2028", " \t"]


def gen_text(rng, legacy=False, filename=False):
    n = rng.randint(1, 16) if rng.random() < 0.97 else rng.randint(200, 4000)
    als = [rng.choice(ALPHABETS) for _ in range(rng.randint(1, 3))]
    s = "".join(rng.choice(rng.choice(als)) for _ in range(n))
    if legacy:      # the legacy format cannot carry white space or '@' in a name
        s = "".join(ch for ch in s if not ch.isspace() and ch not in "@\u200d\ufeff\u2028\u00a0\u2003") or "x"
    if filename:
        s = s.replace("/", "_")
        while len(s.encode("utf-8")) > 200:
            s = s[:len(s) // 2]
        if s in (".", "..") or s.endswith(".pub"):
            s = "u" + s + "x"
    return s


BAD_IPS = ["", "client.example.com", "192.0.2", "192.0.2.256", "fe80::1%eth0", "192.0.2.7/24", "1.2.3.4.5", "0x7f.1", "[::1]", "localhost", "192.0.2.7:22"]


def gen_ip(rng, cls, exotic):
    if cls == "v4":
        return "%d.%d.%d.%d" % (rng.randint(1, 223), rng.randint(0, 255), rng.randint(0, 255), rng.randint(1, 254)) if exotic else "192.0.2.%d" % rng.randint(1, 200)
    if cls == "v6":
        return rng.choice(["2001:db8:%x::%x" % (rng.randint(0, 65535), rng.randint(1, 65535)), "::1", "::ffff:192.0.2.9", "fe80::%x" % rng.randint(1, 999)]) if exotic \
            else "2001:db8::%x" % rng.randint(1, 65535)
    return rng.choice(BAD_IPS)


class Rot:
    """Round-robin choice per call site: direction A walks through every variant of a class instead of drawing them."""
    def __init__(self, rng):
        self.rng, self.n = rng, collections.Counter()

    def choice(self, options, site):
        options = list(options)
        k = self.n[site]
        self.n[site] += 1
        return options[(k + self.rng_offset(site)) % len(options)]

    def rng_offset(self, site):
        return (vlib.seed() * 31 + sum(map(ord, site))) % 97


# classes with several concrete variants: (dimension, value) -> (call site in concretize, number of variants)
VARIANTS = {("cmd", "missing"): ("missing", 8), ("cmd", "null"): ("null", 3), ("cmd", "garbage"): ("garbage", 12), ("cmd", "badver"): ("badver", 8),
            ("conn", "bad"): ("badip", 11), ("pol", "bad"): ("badpol", 7), ("cfile", "badjson"): ("badjson", 7), ("hsec", "absent"): ("habsent", 3),
            ("hsec", "undecodable"): ("hundec", 3), ("tls", "nocert"): ("nocert", 2), ("tls", "noca"): ("noca", 2), ("sock", "unset"): ("sockvar", 3)}


def variant_site(sc):
    """(site, n) when the scenario is the all-good base except for ONE dimension whose class has several concrete variants."""
    diff = [k for k in MCBASE if sc.get(k) != MCBASE[k]]
    if len(diff) == 1 and isinstance(sc[diff[0]], str) and (diff[0], sc[diff[0]]) in VARIANTS:
        return VARIANTS[(diff[0], sc[diff[0]])]
    return None


def concretize(sc, rng, exotic=False, rot=None, force=None):
    """abstract scenario -> (scenario record for the trace, concrete process inputs)"""
    sc = json.loads(json.dumps(sc))

    def var(options, site):        # a variant of a class: drawn (B), walked through or forced (A)
        if force and site in force:
            if len(options) != dict(VARIANTS.values())[site]:
                raise NoVerdict("internal: %d variants at site %s" % (len(options), site))
            return options[force[site]]
        return rng.choice(options) if exotic or rot is None else rot.choice(options, site)
    legacy = sc["cmd"] != "json"       # every non-JSON class may be rendered in the legacy format: names without white space and '@'
    if exotic:
        ln, ru, rh = gen_text(rng, filename=True), gen_text(rng, legacy), gen_text(rng, legacy)
    else:
        ln = rng.choice(["alice", "bob.smith", "svc_deploy-01", "j.doe"])
        ru, rh = rng.choice(["carol", "dave", "root"]), rng.choice(["laptop.example.com", "WS-17.Corp.Example", "10.1.2.3"])
    ver = rng.choice(["8.1", "9.6", "7.4", "0.0", "65535.65535"])
    hard, algo = sc["hard"], sc["algo"]
    asc = (not exotic) or rng.random() < 0.5

    def jobj(**kw):
        o = {"ifVer": 7, "username": ru, "hostname": rh, "sshClientVersion": ver, "hardKey": hard}
        if algo != 0 or rng.random() < 0.3:
            o["caPubKeyAlgo"] = algo
        if rng.random() < 0.3:
            o["touch2SSH"] = False
        if exotic and rng.random() < 0.3:
            o["exts"] = {"note": gen_text(rng), "n": 5}
        o.update(kw)
        return {k: v for k, v in o.items() if v is not None}

    def legacy_line(req="%s@%s" % (ru, rh), version=ver, extra=()):
        toks = ["IFVer=6"]
        if version is not None:
            toks.append("SSHClientVersion=" + version)
        if req is not None:
            toks.append("req=" + req)
        if hard:
            toks.append("HardKey=true")
        elif rng.random() < 0.3:
            toks.append("HardKey=false")
        toks += list(extra)
        if exotic:
            rng.shuffle(toks)
        return (" " * rng.randint(1, 2)).join(toks) if exotic else " ".join(toks)

    cmd = sc["cmd"]
    if cmd == "json":
        cmdline = json.dumps(jobj(), ensure_ascii=asc)
    elif cmd == "legacy":
        cmdline = legacy_line(version=(None if rng.random() < 0.2 else ver), extra=rng.choice([(), ("privKeyNeeded",), ("Touch2SSH=false",)]))
    elif cmd == "missing":
        cmdline = var([lambda: json.dumps(jobj(username=None), ensure_ascii=asc), lambda: json.dumps(jobj(hostname=None), ensure_ascii=asc),
                       lambda: json.dumps(jobj(sshClientVersion=None), ensure_ascii=asc), lambda: json.dumps(jobj(hostname=""), ensure_ascii=asc),
                       lambda: "{}", lambda: legacy_line(req=None), lambda: legacy_line(req=ru), lambda: legacy_line(req="%s@%s@%s" % (ru, rh, rh))], "missing")()
    elif cmd == "null":
        cmdline = var(["null", " null", "null\n"], "null")
    elif cmd == "garbage":
        cmdline = var(["", "{", "[1,2]", "\"text\"", "42", "true", "hello world", "{\"username\": 5}", "{\"username\":\"u\",\"hostname\":\"h\",\"sshClientVersion\":\"8.1\"",
                       None, "IFVer=6 HardKey=true", "\u00ff\u00fe"], "garbage")
    elif cmd == "badver":
        bad = var(["8", "abc", "8.1p1", "8.99999", "-1.0", " 8.1", "8.1 ", "8..1"], "badver")
        cmdline = json.dumps(jobj(sshClientVersion=bad), ensure_ascii=asc) if rng.random() < 0.6 or " " in bad else legacy_line(version=bad)
    else:
        raise NoVerdict("unknown command class %r" % cmd)

    logname = ln if sc["lnset"] else rng.choice(["", None])
    ip = gen_ip(rng, sc["conn"], exotic) if sc["conn"] != "bad" else var(BAD_IPS, "badip")
    if sc["conn"] == "bad" and rng.random() < 0.15:
        sshconn, first = None, ""
    else:
        sshconn = "%s %d %s 22" % (ip, rng.randint(1024, 65535), "198.51.100.%d" % rng.randint(1, 200))
        if sc["conn"] == "bad" and rng.random() < 0.2:
            sshconn = " " + sshconn.lstrip()          # leading blank: the first field is empty
        first = sshconn.split(" ")[0]

    pol = sc["pol"] if sc["pol"] != "bad" else var(["nons", "NS", "NONSX", "", "NSOK!", "NoNs", "OK"], "badpol")
    hname = rng.choice(["paranoids.regular", "ALL_MODULES"]) if not exotic or rng.random() < 0.7 else gen_text(rng, legacy=True)
    a0 = rng.choice(["gensign", "/usr/bin/gensign", "-gensign"])
    n = sc["ntok"]
    if n == 3:
        argv = [a0, pol, hname]
    elif n == 2:
        argv = rng.choice([[a0, pol], [a0, "-c"], [a0, hname]])
    elif n >= 4:
        filler = ["-c", "/usr/bin/gensign", "-x", "a", "b", "c"][:n - 3]
        toks = filler + [pol, hname]
        if exotic:      # any grouping of the tokens into arguments
            argv, cur = [a0], []
            for t in toks:
                cur.append(t)
                if rng.random() < 0.4:
                    argv.append(" ".join(cur))
                    cur = []
            if cur:
                argv.append(" ".join(cur))
        else:
            argv = [a0, toks[0], " ".join(toks[1:])] if len(toks) > 1 else [a0] + toks
    else:
        argv = [a0]
    ntok = sum(len(a.split(" ")) for a in argv)
    if ntok != n:
        raise NoVerdict("internal: argv %r has %d tokens, %d wanted" % (argv, ntok, n))

    kidmap = {}
    for a in sc["ids"]:
        kidmap[rng.choice(ALGO_NAMES[a]) if exotic else ALGO_NAMES[a][0]] = "slot-%d" % a
    conc = {"cmdline": cmdline, "logname": logname, "sshconn": sshconn, "argv": argv, "kidmap": kidmap,
            "lnfile": ln if sc["lnset"] else "", "hvar": "", "tvar": "", "badjson": "", "rt": {"normal": 20, "default": 0, "tight": 1}[sc["rt"]],
            "code": rng.randint(1, 16) if exotic else 13, "extra": {},
            "ptt": "2s" if any(e["out"] == "hang" for e in sc["eps"]) else "5s", "sockvar": var(["unset", "empty", "blank"], "sockvar")}
    if sc["hsec"] == "absent":
        conc["hvar"] = var(["nokey", "emptymap", "null"], "habsent")
    elif sc["hsec"] == "undecodable":
        conc["hvar"] = var(["val_string", "kid_badalgo", "dir_list"], "hundec")
    if sc["tls"] == "nocert":
        conc["tvar"] = var(["cert", "key"], "nocert")
    elif sc["tls"] == "noca":
        conc["tvar"] = var(["missing", "garbage"], "noca")
    if sc["cfile"] == "badjson":
        conc["badjson"] = var(["", "{", "{\"handlers\": [1,2]}", "not json at all", "{\"request_timeout\": \"soon\"}", "[]", "{\"signer\": 7}"], "badjson")
    if exotic and rng.random() < 0.3:
        conc["extra"] = {"HOME": "/nonexistent", "LANG": "C.UTF-8", "USER": gen_text(rng, legacy=True)}
    sc["lnv"] = hx(ln) if sc["lnset"] else ""
    sc["ru"], sc["rh"], sc["ip"], sc["tid"] = hx(ru), hx(rh), hx(first), ""
    return {"sc": sc, "conc": conc}


EPS_POOL = [{"id": i, "out": "sign", "k": k} for i in ("genuine", "foreign", "selfsigned", "hosttrusted") for k in (1, 2)] + \
           [{"id": i, "out": o, "k": 0} for i in ("genuine", "foreign", "selfsigned", "hosttrusted") for o in ("rpc", "unparsable")]
BASE = {"cmd": "json", "hard": False, "algo": 1, "lnset": True, "conn": "v4", "pol": "NONS", "ntok": 3, "sock": "ok", "logf": "ok", "cfile": "ok",
        "hsec": "present", "ids": [0, 1, 3], "val": 600, "eps": [{"id": "genuine", "out": "sign", "k": 1}], "epform": "list", "tls": "ok", "rt": "normal",
        "dir": {"lp": "U", "lb": "none"}, "pa": "user", "ans": "honest", "die": 0, "dk": "close", "lnv": "", "ru": "", "rh": "", "ip": "", "tid": ""}


MCBASE = dict(BASE, ids=[0, 1, 3])        # Base of MCSystem.tla
for _k in ("lnv", "ru", "rh", "ip", "tid"):
    del MCBASE[_k]


def random_scenario(rng, pa):
    """A scenario in which everything is good (with harmless variation in every dimension), then 0..2 deviations."""
    s = json.loads(json.dumps(BASE))
    s["pa"] = pa
    held = "O" if pa == "nokey" else "U"
    s["cmd"] = rng.choice(["json", "json", "legacy"])
    s["algo"] = 0 if s["cmd"] != "json" else rng.choice([0, 1, 1, 3, 3, 2, 4, 7])
    s["conn"] = rng.choice(["v4", "v6"])
    s["ntok"] = rng.choice([3, 3, 4, 5, 5, 6])
    s["ids"] = rng.choice([[0, 1, 2, 3, 4], [0, 1, 2, 3, 4], sorted({s["algo"], 3}), [s["algo"]]])
    s["val"] = rng.choice([1, 60, 600, 43200, 86400, 315360000])
    s["rt"] = rng.choice(["normal", "default"])
    s["dir"] = rng.choice([{"lp": held, "lb": "none"}, {"lp": "none", "lb": held}, {"lp": held, "lb": rng.choice(["U", "O", "bad"])}])
    good = {"id": "genuine", "out": "sign", "k": rng.choice([1, 2])}
    s["eps"] = rng.choice([[good], [good], [dict(rng.choice(EPS_POOL)), good], [good, dict(rng.choice(EPS_POOL))]])

    def invalid_cmd():
        s["cmd"], s["hard"], s["algo"] = rng.choice(["missing", "null", "garbage", "badver"]), False, 1

    def bad_dir():
        other = "U" if held == "O" else "O"
        s["dir"] = rng.choice([{"lp": "none", "lb": "none"}, {"lp": "bad", "lb": held}, {"lp": other, "lb": held}, {"lp": "none", "lb": "bad"}, {"lp": "none", "lb": other}])

    def bad_eps():
        n = rng.choice([0, 1, 2, 2])
        s["eps"] = [dict(rng.choice([e for e in EPS_POOL if not (e["id"] == "genuine" and e["out"] == "sign")])) for _ in range(n)]
        s["epform"] = rng.choice(["absent", "empty"]) if n == 0 else "list"

    devs = [invalid_cmd, bad_dir, bad_eps,
            lambda: s.update(hard=True), lambda: s.update(lnset=False), lambda: s.update(conn="bad"),
            lambda: s.update(pol=rng.choice(["NSOK", "bad"])), lambda: s.update(ntok=rng.choice([1, 2, 7, 8])),
            lambda: s.update(sock=rng.choice(["unset", "dead", "gpg"])), lambda: s.update(logf="nodir"),
            lambda: s.update(cfile=rng.choice(["missing", "badjson"])), lambda: s.update(hsec=rng.choice(["absent", "undecodable", "unknownonly"])),
            lambda: s.update(ids=[a for a in [0, 1, 2, 3, 4] if a != s["algo"]][:rng.randint(0, 4)]),
            lambda: s.update(tls=rng.choice(["nocert", "noca"])), lambda: s.update(ans=rng.choice(["otherkey", "fail", "close", "wrongkind"])),
            lambda: s.update(die=rng.randint(1, 8), dk=rng.choice(["close", "fail"])), lambda: s.update(die=rng.randint(2, 7), dk=rng.choice(["close", "fail"]))]
    x = rng.random()
    for _ in range(0 if x < 0.5 else 1 if x < 0.88 else 2):
        rng.choice(devs)()
    if s["cmd"] != "json" and s["cmd"] != "legacy":
        s["hard"] = False
    if s["cmd"] == "legacy":
        s["algo"] = 0
    return s


def random_case(rng, i):
    pa = rng.choice(["user", "user", "old", "old", "nokey"])
    runs = [concretize(random_scenario(rng, pa), rng, exotic=True) for _ in range(rng.choice([2, 2, 3]))]
    return {"id": "b%d" % i, "pa": pa, "runs": runs}


# ----------------------------------------------------------------------------------------------
# running, comparing, judging

def sc_key(sc):
    return json.dumps({k: v for k, v in sc.items() if k not in ("lnv", "ru", "rh", "ip", "tid")}, sort_keys=True)


def abstract(r, post):
    """Order- and tag-insensitive summary of an execution, for the strict comparison with the model's expectation."""
    return {"exit": r["exit"], "crash": r["crash"], "chal": [[c["key"], c["good"]] for c in r["chal"]],
            "recv": [len(x) for x in r["recv"]], "ret": [len(x) for x in r["ret"]], "logtid": r["logtid"],
            "post": sorted([x["t"], x["lb"], x["cls"], x["sg"]] for x in post)}


def csr_drift(sc, r, info):
    out = []
    for lst in r["recv"]:
        for c in lst:
            if c["val"] != sc["val"]:
                out.append("validity %d, configured %d" % (c["val"], sc["val"]))
            if bytes.fromhex(c["ident"]).decode("utf-8", "replace") != "slot-%d" % sc["algo"]:
                out.append("key identifier %r for algorithm %d" % (bytes.fromhex(c["ident"]), sc["algo"]))
            if sorted(c["exts"]) != sorted(["permit-pty", "permit-X11-forwarding", "permit-agent-forwarding", "permit-port-forwarding", "permit-user-rc"]):
                out.append("extensions %r" % c["exts"])
            if bytes.fromhex(c["kid"]["tid"]).decode("utf-8", "replace") not in info.get("logtids", []):
                out.append("the transaction id of the KeyID is not named in the log file")
    return out


def run_harness(binp, gensign, cases, wd, label, workers, timeout=3000):
    planp, outp = os.path.join(wd, "plan_%s.json" % label), os.path.join(wd, "obs_%s.ndjson" % label)
    json.dump({"gensign": gensign, "cases": cases, "workers": workers, "timeout": 40}, open(planp, "w"))
    rc, out, err, summ = vlib.run_harness(binp, "TestVerifSystem", {"VERIF_PLAN": planp, "VERIF_OUT": outp}, timeout=timeout)
    if rc != 0 or not summ:
        raise NoVerdict("system harness failed (rc=%d):\n%s\n%s" % (rc, out[-3000:], err[-3000:]))
    if summ.get("errors"):
        raise NoVerdict("system harness reported errors: %s" % json.dumps(summ["errors"])[:3000])
    traces = vlib.split_traces(vlib.read_ndjson(outp))
    if len(traces) != len(cases):
        raise NoVerdict("the harness recorded %d cases, %d were planned" % (len(traces), len(cases)))
    return traces, summ


def judge(traces, label):
    """TLC validates the recorded traces; returns {formula: [(trace index, line)]}."""
    twd = vlib.workdir(PROP, "tv_" + label)
    rejected, st = vlib.validate_traces(PROP, twd, "TraceSystem.tla", TRACE_CFG, PROPS, [list(t) for t in traces])
    return rejected, st


def describe(rec):
    sc, r = rec["e"]["sc"], rec["e"]["r"]
    base = {k: v for k, v in sc.items() if k in BASE and BASE[k] != v and k not in ("lnv", "ru", "rh", "ip", "tid")}
    return "scenario (differences from the all-good base) %s -> exit=%s crash=%s csrs=%s returned=%s challenges=%s" % (
        json.dumps(base, sort_keys=True), r["exit"], r["crash"], [len(x) for x in r["recv"]], [len(x) for x in r["ret"]],
        [[c["key"], c["good"]] for c in r["chal"]])


def key_of(rec):
    sc, r = rec["e"]["sc"], rec["e"]["r"]
    base = sorted("%s=%s" % (k, json.dumps(v, sort_keys=True)) for k, v in sc.items() if k in BASE and BASE[k] != v and k not in ("lnv", "ru", "rh", "ip", "tid"))
    return "%s exit=%s crash=%s" % (",".join(base) or "base", r["exit"], str(r["crash"]).lower())


def judge_with_reexecution(binp, gensign, traces, cases_by_id, wd, label):
    """Judge; re-execute every case with a rejected run once, alone; only what is rejected again counts.
    Returns ([(formula, case id, trace, line)], discarded count, tlc stats)."""
    rejected, st = judge(traces, label)
    bad_ids = []
    for f in PROPS:
        for (ti, li) in rejected[f]:
            cid = traces[ti][0]["tid"]
            if cid not in bad_ids:
                bad_ids.append(cid)
    if not bad_ids:
        return [], 0, st
    log("[judge] %d case(s) with rejected runs; re-executing them alone" % len(bad_ids))
    again = [cases_by_id[c] for c in bad_ids[:200]]
    t2, _ = run_harness(binp, gensign, again, wd, label + "_re", workers=2)
    rej2, st2 = judge(t2, label + "_re")
    confirmed, seen = [], set()
    for f in PROPS:
        for (ti, li) in rej2[f]:
            confirmed.append((f, t2[ti][0]["tid"], t2[ti], li))
            seen.add(t2[ti][0]["tid"])
    discarded = len([c for c in bad_ids[:200] if c not in seen])
    return confirmed, discarded, st


def report(verdicts, confirmed, cases_by_id):
    for (f, cid, trace, li) in confirmed:
        v = verdicts[f]
        rec = trace[li]
        payload = [dict(trace[0], info={"case": cases_by_id[cid], "seed": vlib.seed()})] + trace[1:]
        rp = vlib.save_replay(PROP, "%s_%s.ndjson" % (f, cid), payload) if len(v.violations) < 25 else "(not saved)"
        v.violation(key_of(rec), "run %d of case %s is rejected by %s: %s | stderr: %s" %
                    (li, cid, f, describe(rec), (rec.get("info") or {}).get("stderr", "")[-300:].replace("\n", " / ")), rp)


def finish(verdicts):
    rc = 0
    for f in PROPS:
        rc = max(rc, verdicts[f].finish())
    return rc


def write_evidence(tier, coverage, assumptions, wall, nviol):
    d = os.path.join(vlib.OUT, PROP)
    os.makedirs(d, exist_ok=True)
    ev = {"property_id": PROP, "properties": ["SYS-" + f for f in PROPS], "tier": tier, "seed": vlib.seed(), "level": "model_checking",
          "coverage": coverage, "assumptions": assumptions, "wall_s": round(wall, 2), "violations": nviol}
    json.dump(ev, open(os.path.join(d, "evidence.json"), "w"), indent=1, sort_keys=True)


def replay(prop, path):
    recs = vlib.read_ndjson(path)
    info = recs[0].get("info")
    if not info or "case" not in info:
        raise NoVerdict("replay file carries no case plan")
    wd = vlib.workdir(PROP, "replay_run")
    gensign = build_gensign(os.path.join(vlib.run_root(PROP), "bin"))
    binp = build_harness()
    case = info["case"]
    traces, _ = run_harness(binp, gensign, [case], wd, "replay", workers=1)
    rejected, _ = judge(traces, "replay")
    verdicts = {f: vlib.Verdict("SYS-" + f) for f in PROPS}
    for f in PROPS:
        for (ti, li) in rejected[f]:
            rec = traces[ti][li]
            verdicts[f].violation(key_of(rec), "run %d of case %s is rejected by %s: %s" % (li, case["id"], f, describe(rec)), path)
    for t in traces:
        for r in t[1:]:
            log("replayed: %s | %s" % (describe(r), json.dumps(r.get("info"))[:1500]))
    return finish(verdicts)


def run(prop, tier):
    t0 = time.time()
    conf = CFG[tier]
    cfg = conf["cfg"]
    verdicts = {f: vlib.Verdict("SYS-" + f) for f in PROPS}
    rng = random.Random(vlib.seed() * 7919 + 17)

    # 1. TLC model-checks E1..E5 (and the sanity invariants) on the bounded model and exports every finished execution
    wd = vlib.workdir(PROP, "mc_" + cfg)
    r = vlib.tlc(wd, "MCSystem.tla", cfg + ".cfg", workers=4, timeout=1500, coverage=(tier == "thorough"))
    if r.violated:
        raise NoVerdict("the MODEL violates %s under %s (model counterexample, not a verdict on the code):\n%s" % (r.violated, cfg, r.stdout[-3000:]))
    if r.error or "Model checking completed. No error" not in r.stdout:
        raise NoVerdict("TLC failed on %s: %s" % (cfg, r.error or r.stdout[-2000:]))
    states, trans, depth = r.distinct, r.generated, r.depth
    vacuous = list(r.coverage_zero)
    log("[tlc] %s: %d generated / %d distinct, depth %d, %.1fs" % (cfg, trans, states, depth, r.wall))
    exported = vlib.tlc_json_lines(r.stdout, "CASE")
    del r
    expect = collections.OrderedDict()
    for c in exported:
        expect.setdefault(sc_key(c["sc"]), []).append(c)
    if not expect:
        raise NoVerdict("the model exported no execution")

    # 2. the real binary: every exported scenario (A), seeded random histories of 2..3 executions (B)
    gensign = build_gensign(os.path.join(vlib.run_root(PROP), "bin"))
    binp = build_harness()
    cases, model_of = [], {}
    rot = Rot(rng)
    for i, (k, alts) in enumerate(expect.items()):
        run_ = concretize(alts[0]["sc"], rng, exotic=False, rot=rot)
        cases.append({"id": "a%d" % i, "pa": alts[0]["sc"]["pa"], "runs": [run_]})
        model_of["a%d" % i] = alts
        vs = variant_site(alts[0]["sc"])
        if vs:      # every concrete variant of the one deviating class, everything else good
            for v in range(vs[1]):
                cid = "a%dv%d" % (i, v)
                cases.append({"id": cid, "pa": alts[0]["sc"]["pa"], "runs": [concretize(alts[0]["sc"], rng, exotic=False, rot=rot, force={vs[0]: v})]})
                model_of[cid] = alts
    nrand = conf["nrand"]
    for i in range(nrand):
        cases.append(random_case(rng, i))
    cases_by_id = {c["id"]: c for c in cases}
    traces, summ = run_harness(binp, gensign, cases, wd, "main", workers=conf["workers"])
    by_id = {t[0]["tid"]: t for t in traces}

    # strict comparison of direction A with the model's expectation (drift is a warning; TLC judges the properties)
    drift, labels = [], set()
    for cid, alts in model_of.items():
        got = by_id[cid][1]
        obs = abstract(got["e"]["r"], got["post"]["ag"])
        exps = [abstract(a["r"], a["post"]) for a in alts]
        if obs not in exps:
            drift.append({"case": cid, "scenario": key_of(got), "expected": exps[0], "observed": obs})
        for d in csr_drift(got["e"]["sc"], got["e"]["r"], got.get("info") or {}):
            drift.append({"case": cid, "scenario": key_of(got), "csr": d})
    nruns = 0
    for t in traces:
        for s in t[1:]:
            nruns += 1
            a = abstract(s["e"]["r"], s["post"]["ag"])
            labels.add(json.dumps([a["exit"], a["chal"], a["recv"], a["ret"], a["logtid"], len(a["post"])]))

    # 3. TLC judges every recorded execution with E1..E5
    confirmed, discarded, st = judge_with_reexecution(binp, gensign, traces, cases_by_id, wd, cfg)
    log("[tlc] trace validation: %d executions in %d cases, %.1fs; %d rejected case(s) passed when re-executed alone" % (nruns, len(traces), st["wall"], discarded))
    if discarded > max(3, len(cases) // 100):
        raise NoVerdict("%d cases were rejected once and accepted when re-executed alone (timing under load?)" % discarded)
    report(verdicts, confirmed, cases_by_id)
    for d in drift[:8]:
        log("SPEC-DRIFT (the execution differs from the model's expectation; no E-formula rejects it unless reported): %s" % json.dumps(d)[:900])

    samples = []
    for t in (traces[:2] + traces[-2:]):
        samples.append([{"scenario": key_of(s), "argv": (s.get("info") or {}).get("argv"), "csrs_at_endpoints": [len(x) for x in s["e"]["r"]["recv"]],
                         "post": sorted(x["t"] + "/" + x["lb"] + "/" + x["cls"] for x in s["post"]["ag"])} for s in t[1:]])
    cov = {"states": states, "transitions": trans, "depth": depth, "traces_validated_against_impl": len(traces), "samples": samples,
           "exhaustive": True, "model_cfg": cfg, "exported_executions": len(exported), "replayed_scenarios_A": len(expect), "replayed_cases_A": len(model_of),
           "random_cases_B": nrand, "random_executions_B": nruns - len(model_of), "evaluations": nruns * len(PROPS),
           "distinct_nontrivial": len(labels), "exit_status_counts": summ.get("exits"), "spec_drift": len(drift),
           "discarded_after_reexecution": discarded, "zero_coverage_actions": vacuous,
           "rule": "every scenario of the bounded model is executed with the real gensign binary and every recorded execution (A and B) is judged by TLC "
                   "with E1..E5; distinct_nontrivial = distinct (exit status, challenge outcomes, requests per endpoint, certificates returned, log id, agent size) observed"}
    rc = finish(verdicts)
    write_evidence(tier, cov,
                   ["cmd/gensign/main.go is compiled from the tree with ONLY its two hard-coded paths (confPath, logFile) read from the environment",
                    "the forwarded agent is x/crypto's keyring behind a frame proxy on a unix socket; adversarial answers are produced by the proxy",
                    "CA endpoints are TLS gRPC servers of the harness on 127.0.0.1-3 that sign real certificates for the public key of the request",
                    "Retries=1 and per_try_timeout=5s in the generated configuration; OpenTelemetry export disabled",
                    "login names are valid UTF-8 file names; legacy-format user/host names carry no white space or '@'"],
                   time.time() - t0, sum(len(v.violations) for v in verdicts.values()))
    return rc
