#!/usr/bin/env python3
"""Entry point of the end-to-end composition check: check_system.py [--tier quick|thorough] [--replay path]
Exit codes as for bin/check: 0 = E1..E5 held on everything explored, 1 = `VIOLATION property=SYS-E<n> replay=<path>`,
2 = no verdict."""
import sys, os, argparse, traceback
sys.path.insert(0, os.path.dirname(os.path.abspath(__file__)))
for k, v in dict(GOFLAGS="-mod=mod", GOPROXY="off", GOSUMDB="off", GOTOOLCHAIN="local").items():
    os.environ.setdefault(k, v)
import vlib
import fam_system


def main():
    ap = argparse.ArgumentParser()
    ap.add_argument("--tier", default=os.environ.get("VERIF_TIER", "quick"), choices=["quick", "thorough"])
    ap.add_argument("--replay", default=None)
    a = ap.parse_args()
    try:
        if a.replay:
            return fam_system.replay("SYS", a.replay)
        return fam_system.run("SYS", a.tier)
    except vlib.NoVerdict as e:
        print("NO-VERDICT property=SYS: %s" % e, file=sys.stderr)
        return 2
    except Exception:
        traceback.print_exc()
        print("NO-VERDICT property=SYS: internal error of the checking machinery", file=sys.stderr)
        return 2


if __name__ == "__main__":
    sys.exit(main())
