#!/bin/bash
# usage: tools/seedx.sh <seed dir> <Cxx> [tier] : run ANOTHER property's check on a seeded change (cross-catch), no filing
set -u
src=$1; prop=$2; tier=${3:-quick}; name=$(basename $src)
export GOFLAGS=-mod=mod GOPROXY=off GOSUMDB=off GOTOOLCHAIN=local
wt=/tmp/seedx_${name}_$prop
git -C /repo worktree remove --force $wt 2>/dev/null
git -C /repo worktree add --detach $wt HEAD >/dev/null 2>&1 || exit 2
git -C $wt apply $src/patch.diff || { git -C /repo worktree remove --force $wt; exit 2; }
VERIF_REPO=$wt /verif/bin/check $prop --tier $tier > /tmp/seedx_${name}_$prop.out 2>/tmp/seedx_${name}_$prop.err; chk=$?
echo "seedx=$name check=$prop rc=$chk violations=$(grep -c '^VIOLATION' /tmp/seedx_${name}_$prop.out)"
grep '^VIOLATION' /tmp/seedx_${name}_$prop.out | head -2 | cut -c1-240
git -C /repo worktree remove --force $wt
