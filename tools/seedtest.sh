#!/bin/bash
# usage: tools/seedtest.sh <seed dir, e.g. /tmp/seed_out/C08_1> <Cxx> [tier]
# Confirms a seeded change independently (compiles, suite passes, demonstration fails with / passes without it),
# runs the registered check against a scratch worktree with the change, and files it under /verif/seeded/<name>/.
set -u
src=$1; prop=$2; tier=${3:-quick}
name=$(basename $src)
export GOFLAGS=-mod=mod GOPROXY=off GOSUMDB=off GOTOOLCHAIN=local
wt=/tmp/seedchk_$name
git -C /repo worktree remove --force $wt 2>/dev/null
git -C /repo worktree add --detach $wt HEAD >/dev/null 2>&1 || exit 2
cd $wt
git apply $src/patch.diff || { echo "patch does not apply"; git -C /repo worktree remove --force $wt; exit 2; }
go build ./... || { echo "BUILD FAILS"; }
suite=$(go test -vet=off -count=1 ./... 2>&1 | grep -c "^FAIL\|^---FAIL\|^--- FAIL")
demo_cmd=$(python3 -c "import json;print(json.load(open('$src/meta.json'))['demo_cmd'])")
# place demonstration files (everything except patch.diff / meta.json) where demo_cmd expects them: run demo_cmd from repo root
( cd $wt && eval "$demo_cmd" ) > /tmp/seedchk_$name.with.log 2>&1; with_rc=$?
git -C $wt apply -R $src/patch.diff
( cd $wt && eval "$demo_cmd" ) > /tmp/seedchk_$name.without.log 2>&1; without_rc=$?
# remove the demonstration and re-apply the change for the check
git -C $wt clean -fdq; git -C $wt checkout -q -- .; git -C $wt apply $src/patch.diff
VERIF_REPO=$wt /verif/bin/check $prop --tier $tier > /tmp/seedchk_$name.check.out 2>/tmp/seedchk_$name.check.err; chk=$?
nv=$(grep -c '^VIOLATION' /tmp/seedchk_$name.check.out)
echo "seed=$name prop=$prop suite_failures=$suite demo_with_change_rc=$with_rc demo_without_rc=$without_rc check_rc=$chk violations=$nv"
grep '^VIOLATION' /tmp/seedchk_$name.check.out | head -2 | cut -c1-260
mkdir -p /verif/seeded/$name
[ "$src" = "/verif/seeded/$name" ] || cp $src/* /verif/seeded/$name/ 2>/dev/null
python3 - <<PY
import json
p='/verif/seeded/$name/meta.json'
m=json.load(open(p))
m['confirmed']={'suite_failures_with_change':$suite,'demo_rc_with_change':$with_rc,'demo_rc_without_change':$without_rc,
 'check':'bin/check $prop --tier $tier (VERIF_REPO=scratch worktree with patch.diff applied)','check_rc':$chk,'violation_lines':$nv,
 'first_violation':open('/tmp/seedchk_$name.check.out').read().split('\n')[0][:400]}
json.dump(m,open(p,'w'),indent=1)
PY
git -C /repo worktree remove --force $wt
