"""C20: WaitCond.tla checked with TLC (safety, liveness under weak fairness, history invariant), bound to
agent/shimagent (Server.Wait / Broadcast) and agent/yubiagent (ServeAgent, client.Wait) by replay of the exported
labelled transition system and by validation of recorded random schedules (TraceWait.tla)."""
import json, os, re, time, random, collections, threading, subprocess, shutil
import vlib
from vlib import NoVerdict, log

HARNESS = {
    False: ("wait", "agent/shimagent", "zz_verif_wait_test.go", "TestVerifWait"),
    True: ("waitserve", "agent/yubiagent", "zz_verif_waitserve_test.go", "TestVerifWaitServe"),
}
# model-checking runs: (cfg, kind).  kind "mc" = exhaustive; "sim" = -simulate
MC = {
    "quick": [("MCWait_q3live", "mc"), ("MCWait_safe4", "mc"), ("MCWait_hist2", "mc"), ("MCWait_genbug", "refute"), ("MCWait_lts", "lts")],
    "thorough": [("MCWait_split", "mc"), ("MCWait_hist", "mc"), ("MCWait_ord8", "mc"), ("MCWait_sim8", "sim"), ("MCWait_genbug", "refute"), ("MCWait_lts", "lts")],
}
TABLE, WAITCODE = 40, 35


# ----------------------------------------------------------------------------------------------
# builds and TLC runs (at most three heavy processes at a time)

def build(via, prop):
    name, pkg, src, _ = HARNESS[via]
    return vlib.build_harness(name, pkg, {"%s/%s" % (pkg, src): os.path.join(vlib.HARNESS, "wait", src)},
                              outdir=os.path.join(vlib.OUT, prop, "bin"))


def run_parallel(jobs, width=3):
    """jobs: list of (name, callable). Returns {name: result}; re-raises the first exception."""
    res, errs = {}, []
    sem = threading.Semaphore(width)

    def work(n, f):
        with sem:
            try:
                res[n] = f()
            except Exception as e:   # noqa
                errs.append(e)
    ths = [threading.Thread(target=work, args=j) for j in jobs]
    for t in ths:
        t.start()
    for t in ths:
        t.join()
    if errs:
        nv = [e for e in errs if isinstance(e, NoVerdict)]
        raise (nv[0] if nv else errs[0])
    return res


def model_check(prop, cfg, kind, tier):
    wd = vlib.workdir(prop, "mc_" + cfg)
    if kind == "sim":
        r = vlib.tlc(wd, "MCWait.tla", cfg + ".cfg", workers=4, timeout=1500,
                     simulate="num=%d" % 1500, extra=["-depth", "60", "-seed", str(vlib.seed())])
    else:
        r = vlib.tlc(wd, "MCWait.tla", cfg + ".cfg", workers=4, timeout=2400, coverage=(tier == "thorough" and kind == "mc"))
    if kind == "refute":
        # a deliberately WRONG variant of the design (the release rule reads the history counter modulo GenMod): TLC must refute
        # P_C20 on it, otherwise the formula would not see a wake-up lost after a long history
        if r.violated != "P_C20":
            raise NoVerdict("TLC did not refute P_C20 on the wrong design %s (violated=%s): %s" % (cfg, r.violated, r.error or r.stdout[-1500:]))
        log("[tlc] %s: P_C20 refuted on the design that reads the history counter, as it must be (%d states, %.1fs)" % (cfg, r.distinct, r.wall))
        r.refuted = True
        return r
    if r.violated:
        raise NoVerdict("the MODEL violates %s under %s (model counterexample, not a verdict on the code):\n%s"
                        % (r.violated, cfg, "\n".join(x for x in r.stdout.splitlines() if not x.startswith('<<"TR"'))[-3000:]))
    ok = ("Model checking completed. No error" in r.stdout) or (kind == "sim" and not r.error and "Error" not in r.stdout)
    if r.error or not ok:
        raise NoVerdict("TLC failed on %s: %s" % (cfg, r.error or r.stdout[-2000:]))
    if kind == "sim":
        m = re.search(r"(\d+) states checked, (\d+) traces generated", r.stdout)
        r.sim_states = int(m.group(1)) if m else 0
        r.sim_traces = int(m.group(2)) if m else 0
        log("[tlc] %s: simulation, %d states checked in %d behaviours, %.1fs" % (cfg, r.sim_states, r.sim_traces, r.wall))
    else:
        log("[tlc] %s: %d generated / %d distinct, depth %d, %.1fs" % (cfg, r.generated, r.distinct, r.depth, r.wall))
    return r


# ----------------------------------------------------------------------------------------------
# the exported LTS and the plans derived from it

class LTS:
    """Quotient LTS of the bounded model: a state is (via, parked waiters with their codes, registered waiters)."""

    def __init__(self, trs):
        self.sid, self.states = {}, []
        self.det = collections.defaultdict(dict)    # state -> {label key: (label, successor)}   reg / request
        self.race = collections.defaultdict(dict)   # state -> {input key: (label, set of successors)}
        for t in trs:
            e = t["e"]
            if e["op"] == "return":
                continue
            a, b = self.S(t["f"]), self.S(t["t"])
            lab = {"op": e["op"], "ws": sorted(e["ws"]), "wc": [t["t"]["reg"][w] for w in sorted(e["ws"])], "cs": sorted(e["cs"]), "dl": e["dl"], "rep": e["rep"]}
            k = json.dumps(lab, sort_keys=True)
            if e["op"] == "race":
                self.race[a].setdefault(k, (lab, set()))[1].add(b)
            else:
                if k in self.det[a] and self.det[a][k][1] != b:
                    raise NoVerdict("exported LTS is not deterministic on %s" % k)
                self.det[a][k] = (lab, b)
        self.inits = [i for i, s in enumerate(self.states) if not s[2]]
        # shortest paths from the initial states over reg/request edges
        self.parent = {i: None for i in self.inits}
        dq = collections.deque(self.inits)
        while dq:
            x = dq.popleft()
            for k in sorted(self.det[x]):
                b = self.det[x][k][1]
                if b not in self.parent:
                    self.parent[b] = (x, k)
                    dq.append(b)

    def S(self, s):
        done = set(s["released"]) | set(s["returned"]) | set(s["called"])
        regd = sorted(w for w, c in s["reg"].items() if c != -1)
        parked = tuple(sorted((w, s["reg"][w]) for w in regd if w not in done))
        key = (bool(s["via"]), parked, tuple(regd))
        if key not in self.sid:
            self.sid[key] = len(self.states)
            self.states.append(key)
        return self.sid[key]

    def prefix(self, a):
        path = []
        while self.parent[a] is not None:
            x, k = self.parent[a]
            path.append((x, k))
            a = x
        return path[::-1]

    def n_edges(self):
        return sum(len(v) for v in self.det.values()), sum(len(v) for v in self.race.values())


def tours(lts, rnd):
    """Walks (lists of (state, kind, label key)) that together cover every reg/request edge and every race input."""
    unc = {a: set(v) for a, v in lts.det.items()}
    uncr = {a: set(v) for a, v in lts.race.items()}
    walks = []
    order = sorted(lts.parent, key=lambda a: len(lts.prefix(a)))
    for a in order:
        while unc.get(a) or uncr.get(a):
            steps = [(x, "det", k) for (x, k) in lts.prefix(a)]
            for (x, _, k) in steps:
                unc[x].discard(k)
            cur = a
            while unc.get(cur) and len(steps) < 14:
                # prefer edges that change the state, so that a walk keeps moving
                cand = sorted(unc[cur])
                mov = [k for k in cand if lts.det[cur][k][1] != cur]
                k = rnd.choice(mov or cand)
                unc[cur].discard(k)
                steps.append((cur, "det", k))
                cur = lts.det[cur][k][1]
            if uncr.get(cur):
                k = rnd.choice(sorted(uncr[cur]))
                uncr[cur].discard(k)
                steps.append((cur, "race", k))
            walks.append(steps)
    return walks


def orderings(lts, init, max_req, max_reg):
    """Every path from init over reg edges and single-code request edges with exactly... at most max_req requests
    and max_reg registrations, maximal ones only (every shorter ordering is a prefix of a maximal one)."""
    out = []

    def rec(a, steps, nreq, nreg):
        ext = False
        for k in sorted(lts.det[a]):
            lab, b = lts.det[a][k]
            if lab["op"] == "request":
                if len(lab["cs"]) != 1 or lab["dl"] != "single" or lab["rep"] > 1 or nreq >= max_req:
                    continue
                ext = True
                rec(b, steps + [(a, "det", k)], nreq + 1, nreg)
            else:
                if nreg >= max_reg:
                    continue
                ext = True
                rec(b, steps + [(a, "det", k)], nreq, nreg + 1)
        if not ext:
            out.append(steps)
    rec(init, [], 0, 0)
    return out


def code_map(via, rnd, abstract):
    """Concrete codes for the abstract codes of the model: in-table codes stay in the table (35 stays 35 where it is
    the code of the wait request itself), codes outside stay outside; distinct codes stay distinct."""
    m = {}
    pool_in = [c for c in range(TABLE) if c != WAITCODE]
    edge_in, edge_out = [0, 1, 11, 31, 34, 36, 39], [40, 41, 255, 128]
    for a in sorted(abstract):
        if a >= TABLE:
            c = rnd.choice(edge_out) if rnd.random() < 0.6 else rnd.randrange(TABLE, 256)
            while c in m.values():
                c = rnd.randrange(TABLE, 256)
        elif a == WAITCODE and (via or rnd.random() < 0.5):
            c = WAITCODE
        else:
            c = rnd.choice(edge_in) if rnd.random() < 0.6 else rnd.choice(pool_in)
            while c in m.values():
                c = rnd.choice(pool_in)
        m[a] = c
    return m


def concretise(lts, wid, steps, rnd, abstract_codes, expect=True):
    via = lts.states[steps[0][0]][0] if steps else False
    m = code_map(via, rnd, abstract_codes)
    out, exp = [], []
    for (a, kind, k) in steps:
        lab, succ = (lts.det[a][k] if kind == "det" else lts.race[a][k])
        cs = [m[c] for c in lab["cs"]]
        rnd.shuffle(cs)      # sending order of a stream: the model's cs is a set
        out.append({"op": lab["op"], "ws": lab["ws"], "wc": [m[c] for c in lab["wc"]], "cs": cs, "dl": lab["dl"], "rep": lab["rep"]})
        if kind == "det":
            st = lts.states[succ]
            exp.append([{"park": sorted([w, m[c]] for (w, c) in st[1]), "regd": sorted(st[2])}])
        else:
            exp.append([{"park": sorted([w, m[c]] for (w, c) in lts.states[b][1]), "regd": sorted(lts.states[b][2])} for b in sorted(succ)])
    return {"id": wid, "steps": out}, exp


def code_walks(via):
    """All 256 codes: a request with the code when nobody waits, two waiters on it, a request with the neighbour code,
    a request with the code."""
    ws = []
    for c in range(256):
        ws.append({"id": "c%d" % c, "steps": [
            {"op": "request", "ws": [], "wc": [], "cs": [c]},
            {"op": "reg", "ws": ["w1"], "wc": [c], "cs": []},
            {"op": "reg", "ws": ["w2"], "wc": [c], "cs": []},
            {"op": "request", "ws": [], "wc": [], "cs": [(c + 1) % 256]},
            {"op": "request", "ws": [], "wc": [], "cs": [c]},
            {"op": "race", "ws": ["w3"], "wc": [c], "cs": [c]},
            # the code as the 2nd / 3rd request of a stream on one connection
            {"op": "reg", "ws": ["w4", "w5"], "wc": [c, c], "cs": []},
            {"op": "request", "ws": [], "wc": [], "cs": [(c + 2) % 256, (c + 3) % 256], "dl": "pipelined"},
            {"op": "request", "ws": [], "wc": [], "cs": [(c + 2) % 256, c], "dl": "pipelined"},
            {"op": "reg", "ws": ["w6", "w7"], "wc": [c, (c + 1) % 256], "cs": []},
            {"op": "request", "ws": [], "wc": [], "cs": [(c + 3) % 256, (c + 2) % 256, c], "dl": "fragmented" if c % 2 else "pipelined"},
            {"op": "request", "ws": [], "wc": [], "cs": [(c + 1) % 256], "dl": "fragmented"}]})
    if via:
        # request classes of the dispatcher with waiters parked on the code: add-hardware-certificate in every frame variant
        # (two well-formed formats, two malformed ones that end the connection with an error), slot requests, the wait
        # request itself, standard and forwarded requests
        for j, c in enumerate([31] * 8 + [33, 33, 34, 34, 32, 35, 35, 11, 13, 17, 18, 19, 22, 23, 25, 1, 0, 9, 20, 21, 26, 27, 36, 39]):
            d = 12 if c != 12 else 14
            ws.append({"id": "k%d" % j, "steps": [
                {"op": "reg", "ws": ["w1", "w2"], "wc": [c, c], "cs": []},
                {"op": "reg", "ws": ["w3"], "wc": [d], "cs": []},
                {"op": "request", "ws": [], "wc": [], "cs": [c]},
                {"op": "reg", "ws": ["w4", "w5", "w6"], "wc": [c, d, c], "cs": []},
                {"op": "request", "ws": [], "wc": [], "cs": [c, 40]},
                {"op": "request", "ws": [], "wc": [], "cs": [d]},
                {"op": "reg", "ws": ["w7", "w8", "w9"], "wc": [c, d, c], "cs": []},
                {"op": "request", "ws": [], "wc": [], "cs": [11 if c != 11 else 13, c], "dl": "pipelined"},
                {"op": "reg", "ws": ["w10", "w11"], "wc": [c, c], "cs": []},
                {"op": "request", "ws": [], "wc": [], "cs": [1, 19, c, d], "dl": "fragmented"}]})
    return ws


HISTORIES = [0, 1, 2, 127, 128, 254, 255, 256, 257, 511, 512]
LONG_HISTORIES = [65535, 65536]


def history_walks(via, tier):
    """Long histories of a code on one long-lived agent: h earlier requests with the code, then waiters park on it, then the
    matching request must release all of them - and again after the next registrations (history h+1, h+2, ...)."""
    ws = []
    codes = [11, 35, 36, 31] if via else [0, 11, 35, 39]
    for c in codes:
        hs = list(HISTORIES)
        if not via or (tier == "thorough" and c in (35, 36)):
            hs += LONG_HISTORIES
        for h in hs:
            d = 12
            st = []
            if h:
                st.append({"op": "request", "ws": [], "wc": [], "cs": [c], "dl": "pipelined" if h > 1 else "single", "rep": h})
            st += [{"op": "reg", "ws": ["w1", "w2"], "wc": [c, c], "cs": []},
                   {"op": "reg", "ws": ["w3"], "wc": [d], "cs": []},
                   {"op": "request", "ws": [], "wc": [], "cs": [c]},
                   {"op": "reg", "ws": ["w4"], "wc": [c], "cs": []},
                   {"op": "request", "ws": [], "wc": [], "cs": [c]},
                   {"op": "reg", "ws": ["w5", "w6"], "wc": [c, c], "cs": []},
                   {"op": "request", "ws": [], "wc": [], "cs": [d, c], "dl": "pipelined"},
                   {"op": "reg", "ws": ["w7"], "wc": [c], "cs": []},
                   {"op": "request", "ws": [], "wc": [], "cs": [c], "dl": "fragmented"}]
            ws.append({"id": "h%d_%d" % (c, h), "steps": st})
    return ws


def pair_walks(via):
    """'Requests with other codes do not release it', code pair by code pair: two waiters parked on c (every table code), then
    requests with every other code d - all of 0..255 in the direct binding, all of 0..39 plus 64, 200, 255 through ServeAgent -
    in groups of 8 (one connection each, or one pipelined / fragmented stream), nobody may be released; then c itself."""
    ws = []
    for c in range(TABLE):
        others = [d for d in (range(256) if not via else list(range(TABLE)) + [64, 200, 255]) if d != c]
        # neighbours and "related" codes first: c^1, c+-1, c+-8, c+-9, constrained/plain pairs (25/17, 26/20), request/answer pairs
        rel = [d for d in (c ^ 1, c + 1, c - 1, c + 8, c - 8, c + 9, c - 9, {17: 25, 25: 17, 20: 26, 26: 20, 11: 12, 12: 11, 13: 14, 14: 13}.get(c, -1))
               if 0 <= d < 256 and d != c]
        order = list(dict.fromkeys(rel + others))
        st = [{"op": "reg", "ws": ["w1", "w2"], "wc": [c, c], "cs": []}]
        for i in range(0, len(order), 8):
            g = order[i:i + 8]
            st.append({"op": "request", "ws": [], "wc": [], "cs": g, "dl": ["single", "pipelined", "fragmented"][(i // 8) % 3]})
        st.append({"op": "request", "ws": [], "wc": [], "cs": [c]})
        ws.append({"id": "p%d" % c, "steps": st})
    return ws


def hold_walks(via, rnd, n):
    """Forced schedule 'a registration is inside the critical section of the code's condition variable when the request
    arrives': waiters parked on c, then a race step in which the harness itself holds the lock of conds[c] (a registrant
    suspended between Lock and the unlock inside sync.Cond.Wait) while requests with c (and sometimes another code) arrive and
    further registrations are in flight; the lock is let go a few ms later.  Everybody parked before must be released by
    these requests (C20_Step), however the implementation orders itself behind the lock."""
    ws = []
    codes = [0, 11, 17, 31, 34, WAITCODE, 36, 39] + [rnd.randrange(TABLE) for _ in range(max(0, n - 8))]
    for i, c in enumerate(codes[:n]):
        if via and c == WAITCODE:
            c = 36          # under ServeAgent a racing wait frame is itself a request with code 35
        d = (c + 7) % TABLE
        npark = 1 + i % 3
        st = [{"op": "reg", "ws": ["w%d" % (j + 1) for j in range(npark)], "wc": [c] * npark, "cs": []},
              {"op": "reg", "ws": ["w4"], "wc": [d], "cs": []}]
        racers = ["w5", "w6"][:1 + i % 2]
        st.append({"op": "race", "ws": racers, "wc": [c] * len(racers), "cs": [c] if i % 4 else sorted([c, (c + 1) % TABLE]),
                   "dl": ["single", "pipelined", "fragmented"][i % 3], "hold": True})
        st.append({"op": "request", "ws": [], "wc": [], "cs": [c]})
        st.append({"op": "request", "ws": [], "wc": [], "cs": [d]})
        ws.append({"id": "k%d" % i, "steps": st})
    return ws


def random_walks(via, n, rnd, maxlen):
    """Direction B: random schedules, up to 8 concurrently parked waiters on the same and on different codes, batches of
    registrations, batches of requests on several connections, registrations racing with requests."""
    ws = []
    for i in range(n):
        k = rnd.choice([1, 2, 2, 3, 4])
        pal = set()
        while len(pal) < k:
            r = rnd.random()
            pal.add(rnd.choice([0, 39, WAITCODE, 11, 31]) if r < 0.35 else rnd.randrange(TABLE) if r < 0.85 else rnd.choice([40, 255, rnd.randrange(TABLE, 256)]))
        pal = sorted(pal)
        other = lambda: rnd.randrange(256)
        steps, nw = [], 0
        for _ in range(rnd.randint(5, maxlen)):
            r = rnd.random()
            pick = lambda: rnd.choice(pal) if rnd.random() < 0.85 else other()
            if r < 0.45 and nw < 16:
                b = min(rnd.choice([1, 1, 1, 2, 3, 4]), 16 - nw)
                ids = ["w%d" % (nw + j + 1) for j in range(b)]
                nw += b
                steps.append({"op": "reg", "ws": ids, "wc": [pick() for _ in ids], "cs": []})
            elif r < 0.85 or nw >= 16:
                cs = sorted({pick() for _ in range(rnd.choice([1, 1, 2, 3, 4]))})
                rnd.shuffle(cs)
                if rnd.random() < 0.12:
                    steps.append({"op": "request", "ws": [], "wc": [], "cs": cs[:1], "dl": "pipelined", "rep": rnd.choice([2, 3, 200, 254, 255, 256, 257, 300])})
                else:
                    steps.append({"op": "request", "ws": [], "wc": [], "cs": cs, "dl": rnd.choice(["single", "single", "pipelined", "fragmented"])})
            else:
                b = min(rnd.choice([1, 1, 2]), 16 - nw)
                ids = ["w%d" % (nw + j + 1) for j in range(b)]
                nw += b
                cs = sorted({pick() for _ in range(rnd.choice([1, 2]))})
                steps.append({"op": "race", "ws": ids, "wc": [rnd.choice(cs) if rnd.random() < 0.7 else pick() for _ in ids], "cs": cs,
                              "dl": rnd.choice(["single", "single", "pipelined", "fragmented"])})
        ws.append({"id": "r%d" % i, "steps": steps})
    return ws


# ----------------------------------------------------------------------------------------------
# running the harness and judging

def run_binding(prop, via, binp, walks, tier, label, par, grace, reg_ms=150):
    wd = vlib.workdir(prop, "h_%s_%s" % (label, "serve" if via else "direct"))
    planp, outp = os.path.join(wd, "plan.json"), os.path.join(wd, "obs.ndjson")
    with open(planp, "w") as f:
        json.dump({"walks": walks, "par": par, "grace_ms": grace, "max_park": 8, "reg_ms": reg_ms}, f)
    rc, out, err, summ = vlib.run_harness(binp, HARNESS[via][3], {"VERIF_PLAN": planp, "VERIF_OUT": outp, "VERIF_TIER": tier}, timeout=2400)
    if rc != 0 or not summ:
        raise NoVerdict("wait harness (%s) failed (rc=%d):\n%s\n%s" % ("serve" if via else "direct", rc, out[-3000:], err[-3000:]))
    return vlib.split_traces(vlib.read_ndjson(outp)), summ


def judge(prop, traces, label, drift):
    """TLC validates every recorded step; returns the steps rejected by TC20 as [(trace index, line)] and statistics."""
    if not traces:
        return [], {"events": 0, "wall": 0.0}
    twd = vlib.workdir(prop, "tv_" + label)
    cfg = open(os.path.join(vlib.SPEC, "TraceWait.cfg")).read()
    rejected, st = vlib.validate_traces(prop, twd, "TraceWait.tla", cfg, ["TC20", "Strict"], traces, strip=("exp", "info", "i"))
    for (ti, li) in rejected["Strict"]:
        if (ti, li) not in rejected["TC20"]:
            drift.append({"trace": traces[ti][0]["tid"], "step": traces[ti][li]["e"], "why": "a parked waiter is not on the table entry of its own code"})
    return rejected["TC20"], st


def file_violations(prop, verdict, traces, rejected, plans, label):
    """Rejected steps of TC20 are violations observed on the real code."""
    bad = set()
    for (ti, li) in rejected:
        rec = traces[ti][li]
        e = rec["e"]
        via = rec["post"]["via"]
        k = "op=%s via=%s pan=%s" % (e["op"], str(via).lower(), str(e["pan"]).lower())
        if len(verdict.violations) < 25 and ti not in bad:
            rp = vlib.save_replay(prop, "%s_%s_%s.json" % (label, "serve" if via else "direct", rec["tid"]),
                                  {"via": via, "walk": plans.get((via, rec["tid"])), "recorded": traces[ti]})
        else:
            rp = "(not saved)"
        bad.add(ti)
        verdict.violation(k, "step %d of trace %s is not allowed by C20_Step: before %s, step %s, after %s"
                          % (li - 1, rec["tid"], json.dumps(rec["pre"]), json.dumps(e), json.dumps(rec["post"])), rp)


def compare_expected(traces, expect, drift):
    """Direction A bookkeeping: the recorded post-state against the successor(s) the exported LTS names."""
    n = 0
    for t in traces:
        via, tid = t[0]["post"]["via"], t[0]["tid"]
        exp = expect.get((via, tid))
        if not exp:
            continue
        for r in t[1:]:
            i = r["i"]
            if i >= len(exp):
                continue
            reg = {w: c for w, c in r["post"]["reg"]}
            got = {"park": sorted([w, reg[w]] for w in r["post"]["park"]), "regd": sorted(reg)}
            n += 1
            if got not in exp[i]:
                drift.append({"trace": tid, "via": via, "step": r["e"], "why": "post-state differs from the exported LTS", "expected": exp[i], "got": got})
    return n


def shape(rec):
    reg = {w: c for w, c in rec["pre"]["reg"]}
    cnt = collections.Counter(reg[w] for w in rec["pre"]["park"])
    cl = lambda c: "w" if c == WAITCODE else ("i" if c < TABLE else "o")
    e = rec["e"]
    rel = lambda c: ("hit%d" % min(cnt[c], 3)) if cnt.get(c) else cl(c)
    return (rec["post"]["via"], e["op"], e.get("dl"), tuple(sorted(min(v, 3) for v in cnt.values())), tuple(sorted(rel(c) for c in e["wc"])),
            tuple(sorted(rel(c) for c in e["cs"])), len(e["rel"]) > 0)


def execute(prop, tier, bins, plans_by_via, expect, verdict, drift, label, par, grace, stats, samples, reg_ms=150, confirm=True):
    jobs = [("h%d" % int(v), (lambda v=v: run_binding(prop, v, bins[v], plans_by_via[v], tier, label, par, grace, reg_ms))) for v in (False, True) if plans_by_via.get(v)]
    res = run_parallel(jobs, width=2)
    traces, plans = [], {}
    for v in (False, True):
        if ("h%d" % int(v)) not in res:
            continue
        ts, summ = res["h%d" % int(v)]
        traces += ts
        for w in plans_by_via[v]:
            plans[(v, w["id"])] = w
        for k in ("walks", "steps", "noverdict", "slow", "panics", "skipped", "leaked", "aborted"):
            stats[k] += summ.get(k, 0)
        stats["max_parked"] = max(stats["max_parked"], summ.get("max_parked", 0))
        stats["held"] = stats.get("held", 0) + summ.get("held", 0)
        stats["observer"]["serve" if v else "direct"] = summ.get("observer", "?")
        for k, n in (summ.get("classes") or {}).items():
            stats["classes"][k] = stats["classes"].get(k, 0) + n
        if summ.get("nvtext") and not stats.get("nvtext"):
            stats["nvtext"] = summ["nvtext"]
    rejected, st = judge(prop, traces, label, drift)
    stats["events"] += st["events"]
    stats["tv_wall"] += st["wall"]
    stats["traces"] += len(traces)
    stats["compared"] += compare_expected(traces, expect, drift)
    # Steps observed with the notify lists are facts.  Steps observed by timing alone (a server without a table of
    # condition variables) can be wrong when the machine stalls ("not returned yet" taken for "parked", a slow return
    # taken for "not released"): a rejected walk is executed again with much longer observation times and only a
    # rejection that shows again is reported.
    firm = [(ti, li) for (ti, li) in rejected if stats["observer"].get("serve" if traces[ti][0]["post"]["via"] else "direct") != "timing"]
    soft = [(ti, li) for (ti, li) in rejected if (ti, li) not in firm]
    file_violations(prop, verdict, traces, firm, plans, label)
    if soft and confirm:
        again = {False: [], True: []}
        seen = set()
        for (ti, li) in soft:
            via, tid = traces[ti][0]["post"]["via"], traces[ti][0]["tid"]
            if (via, tid) not in seen and len(seen) < 60:
                seen.add((via, tid))
                again[via].append(plans[(via, tid)])
        stats["reexecuted_timing_walks"] += len(seen)
        log("[confirm] %d walks rejected under the timing observer are executed again with reg_ms=%d grace=%d" % (len(seen), 6 * reg_ms, 4 * grace))
        jobs = [("h%d" % int(v), (lambda v=v: run_binding(prop, v, bins[v], again[v], tier, label + "_confirm", 16, 4 * grace, 6 * reg_ms))) for v in (False, True) if again[v]]
        res2 = run_parallel(jobs, width=2)
        t2 = []
        for v in (False, True):
            if ("h%d" % int(v)) in res2:
                t2 += res2["h%d" % int(v)][0]
                stats["noverdict"] += res2["h%d" % int(v)][1].get("noverdict", 0)
        rej2, st2 = judge(prop, t2, label + "_confirm", [])
        stats["events"] += st2["events"]
        file_violations(prop, verdict, t2, rej2, plans, label + "_confirm")
        stats["unconfirmed_timing_rejections"] += len(seen) - len({(t2[ti][0]["post"]["via"], t2[ti][0]["tid"]) for (ti, li) in rej2})
    elif soft:
        file_violations(prop, verdict, traces, soft, plans, label)
    for t in traces:
        for r in t[1:]:
            stats["shapes"].add(shape(r))
            if r["e"]["rel"]:
                stats["releases"] += 1
    for t in traces[:1] + traces[-1:]:
        if len(samples) < 4:
            samples.append([{"via": x["post"]["via"], "op": x["e"]["op"], "ws": x["e"]["ws"], "wc": x["e"]["wc"], "cs": x["e"]["cs"],
                             "returned_in_step": x["e"]["rel"], "parked_after": x["e"]["n"]} for x in t[1:9]])


def new_stats():
    return {"walks": 0, "steps": 0, "noverdict": 0, "aborted": 0, "slow": 0, "panics": 0, "skipped": 0, "leaked": 0, "max_parked": 0, "events": 0,
            "tv_wall": 0.0, "traces": 0, "compared": 0, "shapes": set(), "releases": 0, "classes": {}, "observer": {},
            "reexecuted_timing_walks": 0, "unconfirmed_timing_rejections": 0}


def replay(prop, path):
    """Re-execute a saved walk on the real code and judge it again."""
    d = json.load(open(path))
    via, walk = d["via"], d["walk"]
    if not walk:
        raise NoVerdict("replay file has no walk")
    bins = {via: build(via, prop)}
    verdict, drift, stats, samples = vlib.Verdict(prop), [], new_stats(), []
    execute(prop, "quick", bins, {via: [walk]}, {}, verdict, drift, "replay", 1, 120, stats, samples, reg_ms=900, confirm=False)
    if stats["noverdict"]:
        raise NoVerdict("replay gave no observation: %s" % stats.get("nvtext"))
    for s in samples[:1]:
        for x in s:
            log("replayed: %s" % json.dumps(x))
    return verdict.finish()


def run(prop, tier):
    t0 = time.time()
    sd = vlib.seed()
    rnd = random.Random(sd * 104729 + 20)
    verdict, drift = vlib.Verdict(prop), []

    # 1. TLC on the bounded model (safety, liveness, history invariant), export; harness builds alongside
    jobs = [("build", lambda: {False: build(False, prop), True: build(True, prop)})]
    for cfg, kind in MC[tier]:
        jobs.append((cfg, (lambda cfg=cfg, kind=kind: model_check(prop, cfg, kind, tier))))
    if tier == "thorough":
        jobs.append(("apalache", lambda: apalache(prop)))
    res = run_parallel(jobs, width=3)
    bins = res["build"]
    tot_states = sum(r.distinct for n, r in res.items() if n.startswith("MCWait") and r.distinct)
    tot_trans = sum(r.generated for n, r in res.items() if n.startswith("MCWait") and r.generated)
    vacuous = set()
    for n, r in res.items():
        if n.startswith("MCWait"):
            split = "SplitReg = TRUE" in open(os.path.join(vlib.SPEC, n + ".cfg")).read()
            off = {"Register", "Race"} if split else {"Call", "Park"}     # switched off by SplitReg in this cfg, by design
            vacuous |= {"%s:%s" % (n, a) for a in getattr(r, "coverage_zero", []) if a not in off}
    vacuous = sorted(vacuous)
    if vacuous:
        raise NoVerdict("vacuous model run, actions never taken: %s" % vacuous)
    rl = res["MCWait_lts"]
    lts = LTS(vlib.tlc_json_lines(rl.stdout, "TR"))
    un = vlib.tlc_json_lines(rl.stdout, "UN")[0]
    ndet, nrace = lts.n_edges()
    log("[lts] %d states, %d reg/request edges, %d race inputs" % (len(lts.states), ndet, nrace))
    rl.stdout = ""

    # 2. direction A: tours over every transition (+ every ordering in the thorough tier), all 256 codes; direction B: random
    plans, expect = {False: [], True: []}, {}
    tw = tours(lts, rnd)
    covered = set()
    for i, steps in enumerate(tw):
        via = lts.states[steps[0][0]][0]
        w, exp = concretise(lts, "a%d" % i, steps, rnd, un["codes"])
        plans[via].append(w)
        expect[(via, w["id"])] = exp
        covered |= {(a, kind, k) for (a, kind, k) in steps}
    left = ndet + nrace - len(covered)
    nord = 0
    if tier == "thorough":
        for init in lts.inits:
            for (mq, mr) in ((2, 4), (3, 3)):
                for steps in orderings(lts, init, mq, mr):
                    if not steps:
                        continue
                    via = lts.states[init][0]
                    w, exp = concretise(lts, "o%d" % nord, steps, rnd, un["codes"])
                    nord += 1
                    plans[via].append(w)
                    expect[(via, w["id"])] = exp
    nrand = 120 if tier == "quick" else 1500
    for via in (False, True):
        plans[via] += code_walks(via)
        plans[via] += history_walks(via, tier)
        plans[via] += pair_walks(via)
        plans[via] += hold_walks(via, rnd, 16 if tier == "quick" else 64)
        plans[via] += random_walks(via, nrand, rnd, 12 if tier == "quick" else 24)
        rnd.shuffle(plans[via])
    log("[plan] %d tours (%d LTS edges not planned), %d orderings, 2x256 code walks, 2x%d random schedules" % (len(tw), left, nord, nrand))

    stats, samples = new_stats(), []
    execute(prop, tier, bins, plans, expect, verdict, drift, "run", 48 if tier == "quick" else 64, 60, stats, samples)

    for d in drift[:20]:
        log("SPEC-DRIFT (strict conformance only; C20_Step accepts the step): %s" % json.dumps(d)[:700])
    rc = verdict.finish()
    if rc == 0:
        if stats["noverdict"] or stats["aborted"]:
            raise NoVerdict("%d walks gave no observation, %d were not started (%s)" % (stats["noverdict"], stats["aborted"], stats.get("nvtext")))
        if left:
            raise NoVerdict("%d exported transitions were not planned" % left)
        if stats["walks"] == 0 or stats["releases"] == 0:
            raise NoVerdict("vacuous run: nothing was replayed or nobody was ever released")
    cov = {"states": tot_states, "transitions": tot_trans, "traces_validated_against_impl": stats["traces"],
           "samples": samples or [["(nothing recorded)"]], "exhaustive": True,
           "model_runs": {n: ({"generated": r.generated, "distinct": r.distinct, "depth": r.depth, "wall_s": round(r.wall, 1)} if r.distinct
                              else {"simulated_states": getattr(r, "sim_states", 0), "behaviours": getattr(r, "sim_traces", 0), "wall_s": round(r.wall, 1)})
                          for n, r in res.items() if n.startswith("MCWait")},
           "wrong_design_refuted_by_tlc": bool(getattr(res.get("MCWait_genbug"), "refuted", False)),
           "apalache": res.get("apalache"),
           "lts_states": len(lts.states), "lts_edges": ndet, "lts_race_inputs": nrace, "lts_edges_not_planned": left,
           "tours": len(tw), "orderings_replayed": nord, "code_walks": 512, "random_schedules": 2 * nrand,
           "replayed_walks": stats["walks"], "evaluations": stats["events"], "steps_compared_with_lts": stats["compared"],
           "distinct_nontrivial": len(stats["shapes"]), "steps_with_a_release": stats["releases"],
           "rule": "every recorded step (registration observed on the notify lists, request, registration racing with requests) of every "
                   "walk is judged by TLC with C20_Step (TraceWait.tla); distinct_nontrivial = distinct (binding, step kind, multiset of "
                   "parked waiters per code, relation of the step's codes to the parked ones, somebody returned) shapes exercised on the real code",
           "request_classes_through_ServeAgent": dict(sorted(stats["classes"].items())),
           "observer": stats["observer"],
           "timing_observer_walks_executed_again": stats["reexecuted_timing_walks"],
           "timing_observer_rejections_not_confirmed": stats["unconfirmed_timing_rejections"],
           "max_concurrently_parked": stats["max_parked"], "condition_locks_held_across_requests": stats.get("held", 0), "slow_returns": stats["slow"], "panics_observed": stats["panics"],
           "steps_skipped_by_the_8_waiter_cap": stats["skipped"], "goroutines_left_parked": stats["leaked"],
           "walks_without_observation": stats["noverdict"], "spec_drift": len(drift), "zero_coverage_actions": vacuous,
           "model_cfgs": [c for c, _ in MC[tier]], "trace_validation_wall_s": round(stats["tv_wall"], 1)}
    vlib.write_evidence(prop, tier, "model_checking", cov,
                        ["observer=%s" % ("timing (the server has no table of condition variables the harness can read: 'parked' = the Wait call has "
                                          "not returned 150 ms after it was issued, 'still waiting' = not returned 60 ms after the request was answered; a rejected "
                                          "walk is executed again with 900 ms / 240 ms before it is reported)" if "timing" in stats["observer"].values()
                                          else "notify-lists"),
                         "the underlying agent is x/crypto's keyring behind the harness frame proxy",
                         "a registration counts as observed when the Wait call has not returned and the notify lists of the table hold one goroutine more "
                         "(two identical consecutive readings); 'still waiting' = not returned and still on a notify list after the request was answered "
                         "plus a grace period of 60 ms; 'released' = returned (waited for up to 30 s once the notify list shows the wake-up)",
                         "requests through ServeAgent are well-formed frames of at least the length the dispatcher indexes (shorter frames belong to C12)",
                         "a waiter whose registration is in flight when a request with its code arrives may or may not be released by it (lost wake-up window "
                         "of a condition variable; the statement speaks of clients that are blocked)"],
                        time.time() - t0, len(verdict.violations))
    return rc


# ----------------------------------------------------------------------------------------------
# Apalache: inductive invariant of the typed variant with 8 waiters (thorough tier)

def apalache(prop):
    wd = vlib.workdir(prop, "apalache")
    src = os.path.join(vlib.SPEC, "WaitCondTyped.tla")
    if not os.path.exists(src) or not shutil.which("apalache-mc"):
        return {"ran": False}
    shutil.copy(src, wd)
    shutil.copy(os.path.join(vlib.SPEC, "WaitCond.tla"), wd)
    out = {"ran": True}
    env = dict(os.environ)
    env["TMPDIR"] = wd
    env["JVM_ARGS"] = env.get("JVM_ARGS", "") + " -Djava.io.tmpdir=" + wd
    for name, args in (("init_implies_inv", ["--cinit=CInit", "--init=Init", "--inv=IndInv", "--length=0"]),
                       ("inductive_step_call_park", ["--cinit=CInit", "--init=IndInv", "--inv=IndInv", "--length=1"]),
                       ("inv_implies_C20_Step_call_park", ["--cinit=CInit", "--init=IndInv", "--inv=StepOK", "--length=1"]),
                       ("inductive_step_register_race", ["--cinit=CInitAtomic", "--init=IndInv", "--inv=IndInv", "--length=1"]),
                       ("inv_implies_C20_Step_register_race", ["--cinit=CInitAtomic", "--init=IndInv", "--inv=StepOK", "--length=1"])):
        t0 = time.time()
        try:
            p = subprocess.run(["apalache-mc", "check", "--out-dir=" + os.path.join(wd, "o_" + name), "--run-dir=" + os.path.join(wd, "r_" + name)] + args + ["WaitCondTyped.tla"],
                               cwd=wd, stdout=subprocess.PIPE, stderr=subprocess.STDOUT, timeout=900, env=env)
        except subprocess.TimeoutExpired:
            raise NoVerdict("apalache timed out on " + name)
        txt = p.stdout.decode("utf-8", "replace")
        ok = "The outcome is: NoError" in txt
        out[name] = {"ok": ok, "wall_s": round(time.time() - t0, 1)}
        log("[apalache] %s: %s in %.1fs" % (name, "NoError" if ok else "FAILED", time.time() - t0))
        if not ok:
            raise NoVerdict("apalache: %s failed on the MODEL (not a verdict on the code):\n%s" % (name, txt[-2500:]))
    return out
