#!/bin/sh
# usage: tools/mutant_daemon.sh <name> [tier] [--gotest]
# applies mutants/<name>.diff to a scratch worktree of /repo, (optionally) runs `go test ./agent/...` there, and runs the
# daemon composition check with VERIF_REPO pointing at it.  Prints one line: mutant=<name> rc=<rc> <violated properties>.
set -e
name=$1; tier=${2:-quick}
wt=/tmp/verif_mdmn_$name
export GOFLAGS=-mod=mod GOPROXY=off GOSUMDB=off GOTOOLCHAIN=local
git -C /repo worktree remove --force $wt 2>/dev/null || true
git -C /repo worktree add --detach $wt HEAD >/dev/null 2>&1
trap 'git -C /repo worktree remove --force $wt 2>/dev/null; git -C /repo worktree prune' EXIT
( cd $wt && git apply /verif/mutants/$name.diff )
( cd $wt && go build ./... )
gt="-"
if [ "$3" = "--gotest" ]; then
  if ( cd $wt && go test ./agent/... >/tmp/verif_mdmn_$name.gotest 2>&1 ); then gt=pass; else gt=FAIL; fi
fi
set +e
VERIF_REPO=$wt python3 /verif/tools/check_daemon.py --tier $tier > /tmp/verif_mdmn_$name.out 2>/tmp/verif_mdmn_$name.err
rc=$?
props=$(grep '^VIOLATION' /tmp/verif_mdmn_$name.out | sed 's/.*property=\(DMN-D[0-9]\).*/\1/' | sort | uniq -c | tr '\n' ' ')
echo "mutant=$name gotest=$gt rc=$rc violations: $props"
grep '^VIOLATION' /tmp/verif_mdmn_$name.out | head -2 | cut -c1-420
exit 0
