"""C07..C10: ShimAgent.tla checked with TLC, bound to agent/shimagent by LTS replay and trace validation."""
import json, os, time, collections, random
import vlib
from vlib import NoVerdict, log

CFG = {
    # prop: (quick MC cfgs, thorough MC cfgs, random-trace ops, faults in random traces)
    "C07": dict(quick=["MCShim_q07", "MCShim_q07c"], thorough=["MCShim_q07", "MCShim_q07c", "MCShim_q07b", "MCShim_t"],
                ops=["list", "signers", "sign", "add", "addhard", "remove", "removeall", "dremove", "dadd", "dlock", "tick"], faults=[]),
    "C08": dict(quick=["MCShim_q08"], thorough=["MCShim_q08", "MCShim_t"],
                ops=["list", "signers", "sign", "add", "addhard", "remove", "removeall", "lock", "unlock", "close", "dlock", "forward", "fstorm", "lockrace", "lockrace2"], faults=["fail"]),
    "C09": dict(quick=["MCShim_q07b"], thorough=["MCShim_q07b", "MCShim_q07", "MCShim_t"],
                ops=["list", "signers", "sign", "add", "addhard", "remove", "removeall", "dremove", "dadd", "tick"], faults=[]),
    "C10": dict(quick=["MCShim_q10"], thorough=["MCShim_q10", "MCShim_q07", "MCShim_t"],
                ops=["list", "signers", "sign", "add", "addhard", "remove", "removeall", "lock", "unlock", "forward", "fstorm", "dremove", "dadd", "dlock", "tick", "close"],
                faults=["fail", "garbage", "wrongkind", "oversize", "close"]),
}
UNIVERSE_OF = {}   # cfg name -> text of the CONSTANTS part (read from the cfg file)


def cfg_constants(cfgname):
    """The CONSTANTS block of a model-checking cfg, reused for trace validation on the same universe."""
    txt = open(os.path.join(vlib.SPEC, cfgname + ".cfg")).read()
    out, on = [], False
    for line in txt.splitlines():
        if line.startswith("CONSTANTS"):
            on = True
            out.append(line)
            continue
        if on and line and not line.startswith(" "):
            break
        if on:
            out.append(line)
    return "\n".join(out)


def trace_cfg(cfgname):
    c = cfg_constants(cfgname)
    # traces may contain any operation and any fault kind
    lines = []
    for line in c.splitlines():
        if line.strip().startswith("Ops"):
            line = "  Ops <- AllOps"
        if line.strip().startswith("FaultKinds"):
            line = '  FaultKinds = {"fail", "garbage", "wrongkind", "oversize", "close"}'
        lines.append(line)
    return "SPECIFICATION TraceSpec\n" + "\n".join(lines)


def key(o):
    return json.dumps(o, sort_keys=True, separators=(",", ":"))


def norm_state(s):
    s = dict(s)
    for k in ("u", "m", "c", "fv"):
        s[k] = sorted(s[k])
    return s


def norm_label(e):
    e = json.loads(json.dumps(e))
    e["res"]["l1"] = sorted(e["res"]["l1"])
    e["res"]["l2"] = sorted(e["res"]["l2"])
    return e


def is_init(s):
    return (not s["m"]) and (not s["l"]) and s["n"] == 0 and (not s["d"]) and (not s["ul"])


def plan_walks(trs, universe, rnd, maxlen=250, budget_steps=None):
    """Cover every exported transition with walks from initial states.
    Greedy: follow uncovered edges, BFS to the nearest state with an uncovered edge when stuck.
    A walk contains at most one tick (time only moves forward) and reaches it within 150 steps."""
    sid, states, lid, labels = {}, [], {}, []

    def S(s):
        s = norm_state(s)
        k = key(s)
        if k not in sid:
            sid[k] = len(states)
            states.append(s)
        return sid[k]

    def L(e):
        e = norm_label(e)
        k = key(e)
        if k not in lid:
            lid[k] = len(labels)
            labels.append(e)
        return lid[k]

    adjs = collections.defaultdict(set)
    for t in trs:
        adjs[S(t["f"])].add((L(t["e"]), S(t["t"])))
    adj = {a: sorted(v) for a, v in adjs.items()}
    nedges = sum(len(v) for v in adj.values())
    yss = {c for c, d in universe["certs"].items() if d["yss"]}

    def init_ok(s):
        if not is_init(s):
            return False
        want = sorted(c for c in s["u"] if c in yss) if s["nu"] else []
        return s["c"] == want
    inits = [i for i, s in enumerate(states) if init_ok(s)]
    uncov = {a: set(range(len(adj[a]))) for a in adj}
    tick = [lab["op"] == "tick" for lab in labels]
    close = [lab["op"] == "close" and lab["res"]["ok"] for lab in labels]
    # shortest-path tree from the initial states (multi-source BFS)
    parent = {i: None for i in inits}
    order = list(inits)
    rnd.shuffle(order)
    dq = collections.deque(order)
    bfs_order = []
    while dq:
        x = dq.popleft()
        bfs_order.append(x)
        for j, (e, b) in enumerate(adj.get(x, ())):
            if b not in parent:
                parent[b] = (x, j)
                dq.append(b)

    def prefix(a):
        path = []
        while parent[a] is not None:
            x, j = parent[a]
            path.append((x, j))
            a = x
        return a, path[::-1]

    walks, total = [], 0
    for a in bfs_order:
        while uncov.get(a):
            i0, path = prefix(a)
            steps, cur = [], i0
            ticked = False
            for (x, j) in path:
                uncov[x].discard(j)
                e, b = adj[x][j]
                steps.append([e, b])
                ticked = ticked or tick[e]
                cur = b
            while len(steps) < maxlen and uncov.get(cur):
                cand = sorted(uncov[cur])
                plain = [j for j in cand if not tick[adj[cur][j][0]] and not close[adj[cur][j][0]]]
                other = [j for j in cand if j not in plain and not (tick[adj[cur][j][0]] and (ticked or len(steps) > 150))]
                if plain:
                    j = plain[rnd.randrange(len(plain))]
                elif other:
                    j = other[0]
                else:
                    break
                uncov[cur].discard(j)
                e, b = adj[cur][j]
                steps.append([e, b])
                ticked = ticked or tick[e]
                cur = b
            if len(steps) == len(path) and path:
                # nothing new could be taken from a (only a tick that this walk may not take): force it
                break
            walks.append({"init": i0, "steps": steps, "tail": None})
            total += len(steps)
        if budget_steps and total >= budget_steps:
            break
    left = sum(len(v) for v in uncov.values())
    return states, labels, walks, nedges, left


def fault_tails(walks, labels, states, universe, kinds, rnd, per_combo=2):
    """Attach a faulted operation to the end of walks: every (operation, fault kind, request kind hit)."""
    ids = list(universe["keys"]) + sorted(universe["certs"])
    certs = sorted(universe["certs"])
    combos = []
    hits = {"list": ["list", "remove"], "signers": ["list", "remove"], "sign": ["list", "sign", "remove"], "add": ["add"],
            "addhard": ["list"], "remove": ["remove"], "removeall": ["removeall"], "lock": ["lock"], "unlock": ["unlock"],
            "forward": ["raw"]}
    for op, hs in hits.items():
        for h in hs:
            for k in kinds:
                for _ in range(per_combo):
                    if op in ("sign", "add", "remove"):
                        arg = rnd.choice(ids)
                    elif op == "addhard":
                        arg = rnd.choice(certs)
                    elif op in ("lock", "unlock"):
                        arg = rnd.choice(universe["pass"])
                    elif op == "forward":
                        arg = rnd.choice(["ext", "list"])
                    else:
                        arg = ""
                    combos.append({"op": op, "arg": arg, "f": {"kind": k, "hit": h},
                                   "res": {"ok": False, "pan": False, "l1": [], "l2": [], "by": ""}})
    rnd.shuffle(combos)
    out = []
    wi = 0
    order = list(range(len(walks)))
    rnd.shuffle(order)
    for c in combos:
        # pick a walk and cut it at a random point so that faults hit a variety of states
        w = walks[order[wi % len(order)]]
        wi += 1
        steps = w["steps"]
        # never cut inside/after a tick-containing prefix in a way that changes tick presence semantics: allowed, harness handles it
        cutat = rnd.randrange(0, min(len(steps), 40) + 1)
        out.append({"init": w["init"], "steps": steps[:cutat], "tail": c})
    return out


def universe_of_cfg(cfgname):
    """Ask TLC for the universe of a cfg (prints UN from the ASSUME of MCShim)."""
    wd = vlib.workdir("tmp", "un_" + cfgname)
    txt = open(os.path.join(vlib.SPEC, cfgname + ".cfg")).read()
    with open(os.path.join(wd, "un.cfg"), "w") as f:
        f.write(txt)
    r = vlib.tlc(wd, "MCShim.tla", "un.cfg", workers=2, simulate="num=1", extra=["-depth", "1"], timeout=300)
    return vlib.tlc_json_lines(r.stdout, "UN")[0]


def judge(prop, verdict, cfgname, ts, label, drift):
    """Validate traces ts (recorded on the universe of cfgname) with TLC; file violations of prop."""
    twd = vlib.workdir(prop, "tv_%s" % label)
    fmls = ["T" + prop, "TConstruct"] if prop == "C10" else ["T" + prop]
    nall = len(ts)
    ts, mult = vlib.dedupe_traces(ts)
    rejected, vst = vlib.validate_traces(prop, twd, "TraceShim.tla", trace_cfg(cfgname), fmls + ["Strict"], ts)
    for fml in fmls:
        for (ti, li) in rejected[fml]:
            rec = ts[ti][li]
            e = rec["e"]
            k = "op=%s fault=%s/%s pan=%s" % (e["op"], e["f"]["kind"], e["f"]["hit"], str(e["res"]["pan"]).lower())
            rp = vlib.save_replay(prop, "%s_%s.ndjson" % (label, rec["tid"]),
                                  [dict(r, cfg=cfgname) for r in ts[ti]]) if len(verdict.violations) < 25 else "(not saved)"
            verdict.violation(k, "step %d of trace %s (and %d identical ones) is not allowed by %s: %s" % (li, rec["tid"], mult[ti] - 1, fml, json.dumps(e)), rp)
    for (ti, li) in rejected["Strict"]:
        if not any((ti, li) in rejected[f] for f in fmls):
            drift.append({"cfg": cfgname, "trace": ts[ti][0]["tid"], "step": ts[ti][li]})
    return nall


def replay(prop, path):
    """Re-execute a recorded trace on the real code and judge it again."""
    recs = vlib.read_ndjson(path)
    cfgname = recs[0].get("cfg", "MCShim_u8")
    universe = universe_of_cfg(cfgname)
    ops = [r["e"] for r in recs if r.get("ev") == "step" and r["e"]["op"] != "construct"]
    plan = {"universe": universe, "states": [], "labels": [], "walks": [], "fulllog": 0, "random": None, "newcases": [],
            "replays": [{"universe": universe, "init": recs[0]["post"], "ops": ops, "info": recs[0].get("info") or {}}]}
    wd = vlib.workdir(prop, "replay_run")
    binp = vlib.build_harness("shim", "agent/shimagent",
                              {"agent/shimagent/zz_verif_shim_test.go": os.path.join(vlib.HARNESS, "shim", "zz_verif_shim_test.go")},
                              outdir=os.path.join(vlib.OUT, prop, "bin"))
    planp, outp = os.path.join(wd, "plan.json"), os.path.join(wd, "obs.ndjson")
    json.dump(plan, open(planp, "w"))
    rc, out, err, summ = vlib.run_harness(binp, "TestVerifShim", {"VERIF_PLAN": planp, "VERIF_OUT": outp}, timeout=600)
    if rc != 0:
        raise NoVerdict("replay harness failed:\n" + out[-2000:] + err[-2000:])
    ts = vlib.split_traces(vlib.read_ndjson(outp))
    verdict, drift = vlib.Verdict(prop), []
    judge(prop, verdict, cfgname, ts, "replay", drift)
    for t in ts:
        for r in t[1:]:
            log("replayed: %s -> %s" % (json.dumps(r["e"]), json.dumps(r["post"])))
    return verdict.finish()


def run(prop, tier):
    t0 = time.time()
    conf = CFG[prop]
    sd = vlib.seed()
    rnd = random.Random(sd * 7919 + hash(prop) % 1000)
    verdict = vlib.Verdict(prop)
    cfgs = conf[tier]
    tot_states = tot_trans = 0
    samples = []
    stats_all = {"walks": 0, "steps": 0, "deviations": 0, "discarded": 0, "fault_steps": 0, "random_traces": 0,
                 "random_steps": 0, "distinct_labels": 0, "lts_edges": 0, "lts_edges_unplanned": 0}
    traces_validated = 0
    drift = []
    vacuous = []

    binp = vlib.build_harness("shim", "agent/shimagent",
                              {"agent/shimagent/zz_verif_shim_test.go": os.path.join(vlib.HARNESS, "shim", "zz_verif_shim_test.go")},
                              outdir=os.path.join(vlib.OUT, prop, "bin"))

    # the universe of random traces and a simulation run of the property on it
    wd = vlib.workdir(prop, "sim_u8")
    with open(os.path.join(vlib.SPEC, "MCShim_u8.cfg")) as f:
        c8 = f.read().replace("PROPERTIES P_C07 P_C08 P_C09 P_C10", "PROPERTIES P_%s" % prop)
    with open(os.path.join(wd, "sim.cfg"), "w") as f:
        f.write(c8)
    nsim = 400 if tier == "quick" else 6000
    r8 = vlib.tlc(wd, "MCShim.tla", "sim.cfg", workers=8, simulate="num=%d" % nsim, extra=["-depth", "40", "-seed", str(sd)], timeout=1200)
    if r8.violated or r8.error:
        raise NoVerdict("simulation of %s on the U8 universe failed: %s %s" % (prop, r8.violated, r8.error or r8.stdout[-2000:]))
    u8 = vlib.tlc_json_lines(r8.stdout, "UN")[0]
    import re
    m = re.search(r"(\d+) states checked, (\d+) traces generated", r8.stdout)
    sim_states = int(m.group(1)) if m else 0

    for ci, cfg in enumerate(cfgs):
        big = cfg == "MCShim_t"
        wd = vlib.workdir(prop, "mc_" + cfg)
        txt = open(os.path.join(vlib.SPEC, cfg + ".cfg")).read()
        txt = txt.replace("PROPERTIES P_C07 P_C08 P_C09 P_C10", "PROPERTIES P_%s" % prop)
        txt += "\nACTION_CONSTRAINT EmitT\n"
        with open(os.path.join(wd, "run.cfg"), "w") as f:
            f.write(txt)
        r = vlib.tlc(wd, "MCShim.tla", "run.cfg", workers=8, timeout=3000, coverage=(tier == "thorough" and not big), stream_tag="TR")
        if r.violated:
            raise NoVerdict("the MODEL violates %s under %s (model counterexample, not a verdict on the code):\n%s" % (r.violated, cfg, r.stdout[-3000:]))
        if r.error or "Model checking completed. No error" not in r.stdout:
            raise NoVerdict("TLC failed on %s: %s" % (cfg, r.error or r.stdout[-2000:]))
        tot_states += r.distinct
        tot_trans += r.generated
        log("[tlc] %s: %d generated / %d distinct, depth %d, %.1fs" % (cfg, r.generated, r.distinct, r.depth, r.wall))
        vacuous += ["%s:%s" % (cfg, a) for a in r.coverage_zero]
        universe = vlib.tlc_json_lines(r.stdout, "UN")[0]
        del r
        states, labels, walks, nedges, left = plan_walks(vlib.tlc_json_file(wd, "TR"), universe, rnd,
                                                         budget_steps=(400000 if tier == "quick" else (1500000 if big else None)))
        os.remove(os.path.join(wd, "TR.lines"))
        stats_all["lts_edges"] += nedges
        stats_all["lts_edges_unplanned"] += left
        kinds = conf["faults"]
        tails = fault_tails(walks, labels, states, universe, kinds, rnd, per_combo=(2 if tier == "quick" else 8)) if kinds else []
        nrand = (150 if tier == "quick" else 1500) if ci == 0 else 0
        newcases = []
        if prop == "C10" and ci == 0:
            for mode in ("up", "noup"):
                for k in ["none"] + kinds:
                    newcases += [{"kind": k, "hit": mode}] * (2 if tier == "quick" else 10)
        plan = {"newcases": newcases, "universe": universe, "states": states, "labels": labels, "walks": walks + tails, "fulllog": 6,
                "random": {"n": nrand, "minlen": 10, "maxlen": 40 if tier == "quick" else 80, "universe": u8,
                           "ops": conf["ops"], "faults": kinds} if nrand else None}
        planp = os.path.join(wd, "plan.json")
        with open(planp, "w") as f:
            json.dump(plan, f)
        outp = os.path.join(wd, "obs.ndjson")
        log("[plan] %s: %d states, %d labels, %d edges, %d walks (+%d fault tails), %d steps, %d edges unplanned" %
            (cfg, len(states), len(labels), nedges, len(walks), len(tails), sum(len(w["steps"]) for w in walks), left))
        rc, out, err, summ = vlib.run_harness(binp, "TestVerifShim", {"VERIF_PLAN": planp, "VERIF_OUT": outp, "VERIF_TIER": tier}, timeout=3000)
        if rc != 0 or not summ:
            raise NoVerdict("shim harness failed (rc=%d):\n%s\n%s" % (rc, out[-3000:], err[-3000:]))
        for k in ("walks", "steps", "deviations", "discarded", "fault_steps", "random_traces", "random_steps", "distinct_labels"):
            stats_all[k] += summ.get(k, 0)
        recs = vlib.read_ndjson(outp)
        traces = vlib.split_traces(recs)
        # traces recorded on the model universe and on the random universe are validated separately
        groups = {"A": [t for t in traces if t[0]["tid"][0] in "wn"], "B": [t for t in traces if t[0]["tid"].startswith("r")]}
        for g, ts in groups.items():
            if not ts:
                continue
            traces_validated += judge(prop, verdict, cfg if g == "A" else "MCShim_u8", ts, "%s_%s" % (cfg, g), drift)
            for t in ts[:2]:
                if len(samples) < 4:
                    samples.append([{"op": x["e"]["op"], "arg": x["e"]["arg"], "fault": x["e"]["f"]["kind"], "ok": x["e"]["res"]["ok"],
                                     "l1": x["e"]["res"]["l1"], "post_under": x["post"]["u"], "post_mem": x["post"]["m"]}
                                    for x in t[1:13]])
    for d in drift[:20]:
        log("SPEC-DRIFT (strict conformance only; no listed property rejects it): %s" % json.dumps(d)[:600])
    if stats_all["walks"] == 0:
        raise NoVerdict("no walk was replayed")
    if stats_all["discarded"] > max(5, 0.2 * (stats_all["walks"] + stats_all["random_traces"])):
        raise NoVerdict("too many instances discarded by the time guard (%d)" % stats_all["discarded"])
    cov = {"states": tot_states, "transitions": tot_trans, "traces_validated_against_impl": traces_validated,
           "samples": samples or [["(no trace was logged)"]],
           "exhaustive": True,
           "simulation_states_u8": sim_states,
           "replayed_walks": stats_all["walks"], "replayed_steps": stats_all["steps"],
           "lts_edges": stats_all["lts_edges"], "lts_edges_not_planned": stats_all["lts_edges_unplanned"],
           "distinct_nontrivial": stats_all["distinct_labels"], "evaluations": stats_all["steps"] + stats_all["random_steps"] + stats_all["fault_steps"],
           "rule": "every exported transition of the bounded model is replayed on a real shimagent.Server (distinct_nontrivial = distinct (operation, argument, result) labels exercised); random traces and fault steps are validated by TLC against TraceShim",
           "deviations_from_model": stats_all["deviations"], "fault_steps": stats_all["fault_steps"],
           "random_traces": stats_all["random_traces"], "random_steps": stats_all["random_steps"],
           "discarded_by_time_guard": stats_all["discarded"], "spec_drift": len(drift),
           "zero_coverage_actions": vacuous, "model_cfgs": cfgs}
    rc = verdict.finish()
    vlib.write_evidence(prop, tier, "model_checking", cov,
                        ["the underlying agent is x/crypto's keyring behind the harness frame proxy",
                         "validity classes are realised with wall-clock certificates; no operation is judged in the boundary second",
                         "nobody unlocks the underlying agent directly while the shim holds it locked"],
                        time.time() - t0, len(verdict.violations))
    return rc
