"""C01..C04: Gensign.tla checked with TLC, bound to gensign.Run / gensign/regular / agent/ssh by scenario replay
(every finished history of the bounded model) and by TLC trace validation of every recorded run."""
import json, os, re, time, collections
import vlib
from vlib import NoVerdict, log

HARNESS_SRC = os.path.join(vlib.HARNESS, "gensign", "zz_verif_gensign_test.go")
OVERLAY = {"gensign/regular/zz_verif_gensign_test.go": HARNESS_SRC}

# prop: model-checking cfg per tier, number of random (direction B) cases per tier
CFG = {
    "C01": dict(quick="MCGensign_c01", thorough="MCGensign_c01t", nrand=(1200, 12000)),
    "C02": dict(quick="MCGensign_c02", thorough="MCGensign_c02t", nrand=(1500, 15000)),
    "C03": dict(quick="MCGensign_c03", thorough="MCGensign_c03t", nrand=(700, 12000)),
    "C04": dict(quick="MCGensign_c04", thorough="MCGensign_c04t", nrand=(1200, 12000)),
}

TRACE_CFG = """SPECIFICATION TraceSpec
CONSTANTS
  Sc1 = {}
  Sc2 <- TrSc2
  PreAgents = {}
  MaxRuns = 0
  MaxFaults = 0
  AgentFaultKinds = {}
  AgentFaultPts = {}
  CAFaultKinds = {}
  HPanicMethods = {}"""

SYMBOLIC = ("ln", "ru", "rh", "ip", "tid")
CHUNK = 3000


def case_to_plan(i, case):
    """A history exported by TLC -> a harness case (inputs, environment dispositions, fault plan)."""
    runs = []
    for run in case["runs"]:
        sc, r = run["sc"], run["r"]
        flts = []
        for j, fr in enumerate(r["fr"]):
            if fr["f"] != "none":
                flts.append({"pt": "agent", "idx": j + 1, "kind": fr["f"]})
        for m, c in enumerate(r["csr"]):
            if c["res"] in ("err", "panic"):
                flts.append({"pt": "ca", "idx": m + 1, "kind": c["res"]})
        for hp in r["hp"]:
            flts.append({"pt": "h", "idx": hp["h"], "kind": hp["m"]})
        pr = {k: v for k, v in sc.items() if k not in SYMBOLIC}
        for k in SYMBOLIC:
            pr[k] = ""
        pr["flts"] = flts
        runs.append(pr)
    pre = sorted(x["cls"] for x in case["runs"][0]["pre"])
    # "user" first so that tags are planted in a stable order
    pre = [c for c in pre if c == "user"] + [c for c in pre if c != "user"]
    return {"id": "a%d" % i, "pre": pre, "ukind": "", "runs": runs}


def summary(r, post):
    """Order- and tag-insensitive abstract of a run, for the strict comparison with the model's expectation."""
    return {"err": r["err"], "auth": [[a["called"], a["ok"], a["pan"]] for a in r["auth"]],
            "chal": [[c["h"], c["sig"]["data"], c["f"]] for c in r["chal"]],
            "gen": [[g["h"], g["res"], g["n"]] for g in r["gen"]],
            "csr": [[c["h"], c["res"], c["n"]] for c in r["csr"]], "ncerts": len(r["certs"]),
            "fr": [[f["k"], f["f"], f["cert"], f["ok"] or f["k"] == "sign"] for f in r["fr"]],
            "post": sorted([x["t"], x["lb"], x["cls"], x["sg"]] for x in post)}


def key_of(rec):
    e = rec["e"]
    if e["op"] != "run":
        return "challenge-statistics"
    sc, r = e["sc"], e["r"]
    flt = [f["k"] + ":" + f["f"] for f in r["fr"] if f["f"] != "none"] + ["ca:" + c["res"] for c in r["csr"] if c["res"] != "ok"] + \
          ["h:" + h["m"] for h in r["hp"]]
    return "hs=%s ans=%s err=%s flt=%s" % (",".join(sc["hs"]) or "-", sc.get("ans", "?"), r["err"], ",".join(flt) or "-")


def validate(prop, wd, fml, traces):
    """vlib.validate_traces for one formula, additionally returning the clauses each rejected line falsifies
    (TraceGensign prints <<"WHY", line, {clause names}>> next to every <<"REJ", ..>>)."""
    recs, owner = [], []
    for ti, t in enumerate(traces):
        for li, r in enumerate(t):
            recs.append({k: v for k, v in r.items() if k not in ("exp", "info")})
            owner.append((ti, li))
    vlib.write_ndjson(os.path.join(wd, "trace.ndjson"), recs)
    with open(os.path.join(wd, "Trace_run.cfg"), "w") as f:
        f.write(TRACE_CFG + "\nACTION_CONSTRAINT Rep%s\nPOSTCONDITION TraceAccepted\nCHECK_DEADLOCK FALSE\n" % fml[1:])
    r = vlib.tlc(wd, "TraceGensign.tla", "Trace_run.cfg", workers=1, timeout=3000, heap="-Xmx3g")
    if not r.violated and "Model checking completed. No error" not in r.stdout and "TraceAccepted" not in r.stdout:
        # TLC itself failed (e.g. killed on an overloaded machine): one more attempt before giving up
        log("[tlc] trace validation run failed (%s); retrying once" % (r.error or "no result")[:200])
        time.sleep(5)
        r = vlib.tlc(wd, "TraceGensign.tla", "Trace_run.cfg", workers=1, timeout=3000, heap="-Xmx3g")
    if r.violated or r.error or "Model checking completed. No error" not in r.stdout:
        raise NoVerdict("trace validation did not complete (the recorded file was not consumed to the end or TLC failed): %s\n%s"
                        % (r.violated or "", (r.error or r.stdout[-3000:])))
    why = {}
    for m in re.finditer(r'^<<"WHY", (\d+), \{(.*)\}>>', r.stdout, re.M):
        why[int(m.group(1))] = sorted(x.strip().strip('"') for x in m.group(2).split(",") if x.strip())
    rejected = []
    for m in re.finditer(r'^<<"REJ", "(\w+)", (\d+)>>', r.stdout, re.M):
        if m.group(1) == fml:
            l = int(m.group(2))
            rejected.append(owner[l - 1] + (why.get(l, ["?"]),))
    return rejected, {"events": len(recs), "wall": r.wall}


def judge(prop, verdict, traces, label):
    """TLC validates the recorded traces; rejected steps are violations of prop."""
    ts = [list(t) for t in traces]
    fml = "T" + prop
    # one TLC run per chunk of <= CHUNK runs (the accumulated challenge / key histories make a run quadratic in its length)
    chunks, cur, n = [], [], 0
    for t in ts:
        cur.append(t)
        n += len(t) - 1
        if n >= CHUNK:
            chunks.append(cur)
            cur, n = [], 0
    if cur:
        chunks.append(cur)
    st = {"wall": 0.0, "events": 0}
    for ci, chunk in enumerate(chunks):
        if prop == "C01":
            chunk[-1] = chunk[-1] + [{"ev": "step", "tid": "stat", "e": {"op": "stat"}}]
        twd = vlib.workdir(prop, "tv_%s_%d" % (label, ci))
        rejected, st1 = validate(prop, twd, fml, chunk)
        st["wall"] += st1["wall"]
        st["events"] += st1["events"]
        for (ti, li, why) in rejected:
            rec = chunk[ti][li]
            if rec["e"]["op"] == "run":
                payload = chunk[ti]
            else:   # the batch statistics: replayed by recording a fresh batch with the same seed
                payload = [{"ev": "reset", "tid": "stat", "post": {"ag": []}, "info": {"stat": True, "nrand": 64, "seed": vlib.seed()}}]
            rp = vlib.save_replay(prop, "%s_%s.ndjson" % (label, payload[0]["tid"]), payload) if len(verdict.violations) < 25 else "(not saved)"
            verdict.violation(key_of(rec) + " clause=" + "+".join(why), "run %d of case %s falsifies clause(s) %s of %s_Run: %s" %
                              (li, chunk[ti][0]["tid"], "+".join(why), prop, json.dumps({"sc": rec["e"].get("sc"), "r": rec["e"].get("r")})[:1500]), rp)
    return sum(len(t) - 1 for t in traces), st


def died(out, err, summ):
    """The harness PROCESS ended before it could print its summary (os.Exit / fatal error / unrecovered panic in a
    goroutine of the code under test) - as opposed to a failing or timed-out test."""
    txt = out + err
    return summ is None and "test timed out" not in txt and "harness error" not in txt and "VERIF_PLAN" not in txt


def in_flight(progp):
    started, done = [], set()
    if os.path.exists(progp):
        for line in open(progp):
            try:
                r = json.loads(line)
            except ValueError:
                continue
            (started.append(r["id"]) if r["ev"] == "start" else done.add(r["id"]))
    return [i for i in started if i not in done]


def process_death(prop, verdict, binp, wd, plan, progp):
    """C04 ("the process keeps running"): the harness process died.  Every case that was in flight is re-run alone; a case
    that kills the process again is a violation (replayable), anything else stays 'no verdict'."""
    found = 0
    for cid in in_flight(progp)[:12]:
        p1 = dict(plan, workers=1, only=[cid])
        planp = os.path.join(wd, "plan_%s.json" % cid)
        json.dump(p1, open(planp, "w"))
        rc, out, err, summ = vlib.run_harness(binp, "TestVerifGensign", {"VERIF_PLAN": planp, "VERIF_OUT": os.path.join(wd, "obs_%s.ndjson" % cid)}, timeout=300)
        if died(out, err, summ):
            case = next((c for c in plan["cases"] if c["id"] == cid), None)
            info = {"exit": True, "seed": vlib.seed(), "case": case, "only": cid, "random": plan.get("random")}
            rp = vlib.save_replay(prop, "exit_%s.ndjson" % cid, [{"ev": "reset", "tid": cid, "post": {"ag": []}, "info": info}])
            tail = (out + err).strip().splitlines()[-3:]
            verdict.violation("process-exit case=%s" % cid, "the process running gensign.Run ended (rc=%d) while executing case %s alone: %s" % (rc, cid, " | ".join(tail)[:500]), rp)
            found += 1
    return found


def build():
    return vlib.build_harness("gensign", "gensign/regular", OVERLAY, outdir=None)


def build_for(prop):
    return vlib.build_harness("gensign", "gensign/regular", OVERLAY, outdir=os.path.join(vlib.OUT, prop, "bin"))


def replay(prop, path):
    """Re-execute a recorded case on the real code and judge it again."""
    recs = vlib.read_ndjson(path)
    info = recs[0].get("info")
    if not info:
        raise NoVerdict("replay file carries no case plan")
    wd = vlib.workdir(prop, "replay_run")
    binp = build_for(prop)
    planp, outp = os.path.join(wd, "plan.json"), os.path.join(wd, "obs.ndjson")
    if info.get("exit"):
        plan = {"cases": [info["case"]] if info.get("case") else [], "random": None if info.get("case") else info.get("random"),
                "workers": 1, "only": [info["only"]]}
        json.dump(plan, open(planp, "w"))
        rc, out, err, summ = vlib.run_harness(binp, "TestVerifGensign", {"VERIF_PLAN": planp, "VERIF_OUT": outp, "VERIF_SEED": str(info.get("seed", 1))}, timeout=600)
        verdict = vlib.Verdict(prop)
        if died(out, err, summ):
            verdict.violation("process-exit case=%s" % info["only"], "the process running gensign.Run ended (rc=%d): %s" % (rc, (out + err)[-400:]), path)
            return verdict.finish()
        if rc != 0 or not summ:
            raise NoVerdict("replay harness failed:\n" + out[-2000:] + err[-2000:])
        ts = vlib.split_traces(vlib.read_ndjson(outp))
        judge(prop, verdict, ts, "replay")
        return verdict.finish()
    if info.get("stat"):
        json.dump({"cases": [], "random": {"n": info.get("nrand", 64), "maxruns": 3}, "workers": 4}, open(planp, "w"))
    else:
        json.dump({"cases": [info["case"]], "random": None, "workers": 1}, open(planp, "w"))
    rc, out, err, summ = vlib.run_harness(binp, "TestVerifGensign", {"VERIF_PLAN": planp, "VERIF_OUT": outp, "VERIF_SEED": str(info.get("seed", 1))}, timeout=600)
    if rc != 0 or not summ:
        raise NoVerdict("replay harness failed:\n" + out[-2000:] + err[-2000:])
    ts = vlib.split_traces(vlib.read_ndjson(outp))
    verdict = vlib.Verdict(prop)
    judge(prop, verdict, ts, "replay")
    for t in ts:
        for r in t[1:]:
            log("replayed: %s" % json.dumps(r["e"])[:3000])
    return verdict.finish()


def run(prop, tier):
    t0 = time.time()
    conf = CFG[prop]
    cfg = conf[tier]
    verdict = vlib.Verdict(prop)

    # 1. TLC model-checks the property on the bounded model and exports every finished history
    wd = vlib.workdir(prop, "mc_" + cfg)
    txt = open(os.path.join(vlib.SPEC, cfg + ".cfg")).read() + "\nCONSTRAINT Emit\n"
    with open(os.path.join(wd, "run.cfg"), "w") as f:
        f.write(txt)
    r = vlib.tlc(wd, "MCGensign.tla", "run.cfg", workers=4, timeout=3000, coverage=(tier == "thorough"))
    if r.violated:
        raise NoVerdict("the MODEL violates %s under %s (model counterexample, not a verdict on the code):\n%s" % (r.violated, cfg, r.stdout[-3000:]))
    if r.error or "Model checking completed. No error" not in r.stdout:
        raise NoVerdict("TLC failed on %s: %s" % (cfg, r.error or r.stdout[-2000:]))
    states, trans, depth = r.distinct, r.generated, r.depth
    log("[tlc] %s: %d generated / %d distinct, depth %d, %.1fs" % (cfg, trans, states, depth, r.wall))
    vacuous = list(r.coverage_zero)
    seen, cases = set(), []
    for c in vlib.tlc_json_lines(r.stdout, "CASE"):
        k = json.dumps(c, sort_keys=True)
        if k not in seen:
            seen.add(k)
            cases.append(c)
    del r
    if not cases:
        raise NoVerdict("the model exported no history")
    plan_cases = [case_to_plan(i, c) for i, c in enumerate(cases)]
    # histories of several runs are replayed twice: every run in a new process image (fresh handler objects, new forwarded
    # connection) and all runs through ONE regular.Handler object over ONE connection ("u" = reuse)
    expect = {pc["id"]: c for pc, c in zip(plan_cases, cases)}
    step = 1 if (prop in ("C01", "C02") or (tier == "quick" and prop == "C04")) else 2
    for pc, c in list(zip(plan_cases, cases))[::step]:
        if len(c["runs"]) > 1:
            pu = dict(pc, id=pc["id"] + "u", reuse=True)
            plan_cases.append(pu)
            expect[pu["id"]] = c

    # 2. the real code: every exported history (A) and seeded random histories (B)
    binp = build_for(prop)
    nrand = conf["nrand"][0 if tier == "quick" else 1]
    plan = {"cases": plan_cases, "random": {"n": nrand, "maxruns": 3 if tier == "quick" else 4}, "workers": 6}
    planp, outp = os.path.join(wd, "plan.json"), os.path.join(wd, "obs.ndjson")
    json.dump(plan, open(planp, "w"))
    progp = os.path.join(wd, "progress.ndjson")
    rc, out, err, summ = vlib.run_harness(binp, "TestVerifGensign", {"VERIF_PLAN": planp, "VERIF_OUT": outp, "VERIF_TIER": tier, "VERIF_PROGRESS": progp}, timeout=3000)
    if prop == "C04" and died(out, err, summ) and process_death(prop, verdict, binp, wd, plan, progp):
        rc = verdict.finish()
        vlib.write_evidence(prop, tier, "model_checking", {"states": states, "transitions": trans, "traces_validated_against_impl": 0,
                            "samples": [["the harness process was terminated by the code under test"]], "model_cfg": cfg},
                            ["see notes/gensign.md"], time.time() - t0, len(verdict.violations))
        return rc
    if died(out, err, summ):
        # The harness runs cases in parallel goroutines of ONE process; production runs one request per process.  A change
        # that shares mutable state between handler objects can make the Go runtime kill the process ("concurrent map
        # writes") - an artefact of the parallel driver.  Re-run everything sequentially and judge that.
        log("the harness process ended early with parallel workers (rc=%d); re-running the plan sequentially" % rc)
        plan["workers"] = 1
        json.dump(plan, open(planp, "w"))
        rc, out, err, summ = vlib.run_harness(binp, "TestVerifGensign", {"VERIF_PLAN": planp, "VERIF_OUT": outp, "VERIF_TIER": tier, "VERIF_PROGRESS": progp}, timeout=3000)
    if rc != 0 or not summ or summ.get("errors"):
        raise NoVerdict("gensign harness failed (rc=%d):\n%s\n%s" % (rc, out[-3000:], err[-3000:]))
    traces = vlib.split_traces(vlib.read_ndjson(outp))
    by_id = {t[0]["tid"]: t for t in traces}
    if len(by_id) != len(plan_cases) + nrand:
        raise NoVerdict("the harness recorded %d cases, %d were planned" % (len(by_id), len(plan_cases) + nrand))

    # strict comparison of direction A with the model's expectation (drift is a warning, TLC judges the properties)
    drift = []
    labels = set()
    for cid, c in expect.items():
        t = by_id[cid]
        for j, run_ in enumerate(c["runs"]):
            got = t[1 + j]
            exp = summary(run_["r"], run_["post"])
            obs = summary(got["e"]["r"], got["post"]["ag"])
            labels.add(json.dumps([run_["sc"]["hs"], exp["err"], exp["fr"], exp["csr"]]))
            if exp != obs:
                drift.append({"case": cid, "run": j + 1, "expected": exp, "observed": obs})
    for t in traces:
        for s in t[1:]:
            labels.add(json.dumps([s["e"]["sc"]["hs"], s["e"]["r"]["err"], [[f["k"], f["f"]] for f in s["e"]["r"]["fr"]], len(s["e"]["r"]["csr"])]))

    # 3. TLC judges every recorded run
    nsteps, st = judge(prop, verdict, traces, cfg)
    log("[tlc] trace validation: %d runs in %d cases, %.1fs" % (nsteps, len(traces), st["wall"]))
    for d in drift[:5]:
        log("SPEC-DRIFT (the run differs from the model's expectation; no listed property rejects it unless reported): %s" % json.dumps(d)[:900])
    nchal = sum(len(s["e"]["r"]["chal"]) for t in traces for s in t[1:])
    stat_note = None
    if prop == "C01" and nchal < 2:
        raise NoVerdict("no run reached the proof-of-possession challenge (%d challenges recorded): the code under test was not exercised" % nchal)
    if prop == "C01" and nchal < 32:
        # freshness (pairwise distinct) was judged on what was recorded; the statistical clause needs 32 challenges
        stat_note = "challenge-statistics clause NOT evaluated: only %d challenges were recorded (32 needed); freshness was judged" % nchal
        log("NOTE: " + stat_note)

    samples = []
    for t in (traces[:2] + traces[-2:]):
        samples.append([{"hs": s["e"]["sc"]["hs"], "ans": s["e"]["sc"]["ans"], "dir": s["e"]["sc"]["dir"], "err": s["e"]["r"]["err"],
                         "auth": [a["ok"] for a in s["e"]["r"]["auth"]], "signer_calls": len(s["e"]["r"]["csr"]),
                         "frames": [f["k"] + ("!" + f["f"] if f["f"] != "none" else "") for f in s["e"]["r"]["fr"]],
                         "post": sorted(x["t"] + "/" + x["lb"] + "/" + x["cls"] for x in s["post"]["ag"])} for s in t[1:]])
    cov = {"states": states, "transitions": trans, "depth": depth, "traces_validated_against_impl": len(traces),
           "samples": samples, "exhaustive": True, "model_cfg": cfg,
           "exported_histories": len(cases), "replayed_histories_A": len(plan_cases), "replayed_runs_A": sum(len(c["runs"]) for c in expect.values()),
           "random_cases_B": nrand, "random_runs_B": nsteps - sum(len(c["runs"]) for c in expect.values()),
           "evaluations": nsteps, "distinct_nontrivial": len(labels), "challenges_recorded": nchal,
           "rule": "every finished history of the bounded model is replayed on the real gensign.Run and every recorded run (A and B) is judged by "
                   "TLC with %s_Run; distinct_nontrivial = distinct (handler list, error kind, agent frame/fault sequence, signer calls) outcomes observed" % prop,
           "spec_drift": len(drift), "challenge_statistics": stat_note or "evaluated per validated chunk of >= 32 challenges", "err_kinds_observed": summ.get("err_kinds"), "zero_coverage_actions": vacuous}
    rc = verdict.finish()
    vlib.write_evidence(prop, tier, "model_checking", cov,
                        ["the forwarded agent is x/crypto's keyring behind the harness frame proxy; adversarial answers are produced by the proxy",
                         "the CA is a stub csr.Signer that signs real certificates for the CSR's public key",
                         "login / user names are valid UTF-8 file names (no '/' or NUL)",
                         "unpredictability of the challenge is only tested statistically (length, distinctness, per-position variety)"],
                        time.time() - t0, len(verdict.violations))
    return rc
