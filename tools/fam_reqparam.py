"""C14, C15: ReqParam.tla checked with TLC, bound to csr.NewReqParam and package message by replaying the
complete exported case table (direction A) and by seeded free inputs (direction B); every recorded call is
judged by TLC against TraceReqParam.tla (C14_Step / C15_Step)."""
import json, os, re, time, concurrent.futures
import vlib
from vlib import NoVerdict, log

HARNESS = {"csr/zz_verif_reqparam_test.go": os.path.join(vlib.HARNESS, "reqparam", "zz_verif_reqparam_test.go")}
CFG = {
    "C14": dict(quick=["MCReqParam_c14"], thorough=["MCReqParam_c14"], spec="Spec14", strict="Strict14",
                random=dict(quick=4000, thorough=120000), conc=dict(quick=(6, 500), thorough=(8, 5000)), hist=dict(quick=0, thorough=0), long=dict(quick=50000, thorough=1000000)),
    "C15": dict(quick=["MCReqParam_c15q"], thorough=["MCReqParam_c15t", "MCReqParam_c15t4"], spec="Spec15", strict="Strict15",
                random=dict(quick=6000, thorough=120000), conc=dict(quick=(6, 1500), thorough=(8, 10000)), hist=dict(quick=1500, thorough=20000), long=dict(quick=50000, thorough=500000)),
}
TRACE_CONSTANTS = 'CONSTANTS\n  LKeys = {"req"}\n  MaxFields = 0\n  IfVers = {7}\n'
CHUNK = 9000


def build(prop):
    return vlib.build_harness("reqparam", "csr", HARNESS, outdir=os.path.join(vlib.OUT, prop, "bin"))


def model_check(prop, cfgname, wd):
    """TLC on the bounded model: the property formula, the sanity theorems, and the export of every case."""
    txt = open(os.path.join(vlib.SPEC, cfgname + ".cfg")).read()
    txt += "\nACTION_CONSTRAINT EmitCase\n"
    with open(os.path.join(wd, "run.cfg"), "w") as f:
        f.write(txt)
    r = vlib.tlc(wd, "MCReqParam.tla", "run.cfg", workers=4, timeout=1500)
    if r.violated:
        raise NoVerdict("the MODEL violates %s under %s (formalisation slip, not a verdict on the code):\n%s" % (r.violated, cfgname, r.stdout[-3000:]))
    if r.error or "Model checking completed. No error" not in r.stdout:
        raise NoVerdict("TLC failed on %s: %s" % (cfgname, r.error or r.stdout[-2000:]))
    cases = vlib.tlc_json_lines(r.stdout, "CASE")
    log("[tlc] %s: %d generated / %d distinct, %d cases exported, %.1fs" % (cfgname, r.generated, r.distinct, len(cases), r.wall))
    if not cases or 2 * len(cases) != r.distinct:
        raise NoVerdict("case export incomplete: %d cases for %d states" % (len(cases), r.distinct))
    return r, cases


def vkey(e):
    op = e.get("op")
    if op == "reqparam":
        return "op=reqparam jk=%s pan=%s" % (e["cmd"]["jk"], str(e["res"]["pan"]).lower())
    if op == "rt":
        return "op=rt fmt=%s mode=%s" % ("json" if e["a"]["ifVer"] >= 7 else "legacy", e.get("mode", "seq"))
    if op == "decode":
        return "op=decode jk=%s dec=%s pan=%s" % (e["cmd"]["jk"], str(e["cmd"]["dec"]).lower(), str(e["res"]["pan"]).lower())
    return "op=%s" % op


def describe_obj(rec):
    e, info = rec["e"], rec.get("info") or {}
    d = {"op": e.get("op")}
    if e.get("op") == "reqparam":
        un = lambda h: bytes.fromhex(h).decode("utf-8", "backslashreplace")
        d.update(cmd=un(info.get("cmd", ""))[:200], logname=un(info.get("log", "")), conn=un(info.get("conn", ""))[:80],
                 argv=[un(a)[:60] for a in info.get("argv", [])], res={k: v for k, v in e["res"].items() if k != "tidc"},
                 tid="".join(chr(c) for c in e["res"]["tidc"]))
        for k in ("logname", "ip", "pol", "handler", "requser", "reqhost"):
            d["res"][k] = un(d["res"][k])[:60]
    elif e.get("op") == "tidlong":
        d.update({k: v for k, v in e.items() if k != "op"})
        d.update(info)
    elif e.get("op") == "tidbatch":
        d.update(n=e["n"], distinct=len(set(e["sorted"])), cols=[len(c) for c in e["cols"]])
    elif e.get("op") == "rt":
        d.update(attrs=json.loads(json.dumps(info.get("attrs")))if info else None, enc=e["enc"], dec_ok=e["dec"]["ok"], a=e["a"], b=e["dec"]["b"], b2=e["dec2"]["b"])
    else:
        d.update(text=bytes.fromhex(info.get("text", "")).decode("utf-8", "backslashreplace")[:300], res=e["res"])
    return d


def describe(rec):
    return json.dumps(describe_obj(rec), ensure_ascii=True)[:1500]


def judge(prop, verdict, recs, label, drift):
    """TLC validates the recorded events (chunked; every chunk is one trace file starting with a reset)."""
    conf = CFG[prop]
    fml, strict = "T" + prop, conf["strict"]
    steps = [r for r in recs if r.get("ev") == "step"]
    chunks = [steps[i:i + CHUNK] for i in range(0, len(steps), CHUNK)]
    cfg_text = "SPECIFICATION TraceSpec\n" + TRACE_CONSTANTS

    def one(ci):
        twd = vlib.workdir(prop, "tv_%s_%d" % (label, ci))
        tr = [{"ev": "reset", "tid": "t0"}] + chunks[ci]
        return vlib.validate_traces(prop, twd, "TraceReqParam.tla", cfg_text, [fml, strict], [tr], workers=1)

    t0 = time.time()
    with concurrent.futures.ThreadPoolExecutor(max_workers=3) as ex:
        results = list(ex.map(one, range(len(chunks))))
    nrej, perkey = 0, {}
    for ci, (rejected, st) in enumerate(results):
        bad = set()
        for (ti, li) in rejected[fml]:
            rec = chunks[ci][li - 1]
            bad.add(li)
            nrej += 1
            k = vkey(rec["e"])
            perkey[k] = perkey.get(k, 0) + 1
            if perkey[k] > 2:      # two replay files per kind of violation are enough; the rest is counted
                continue
            rp = vlib.save_replay(prop, "%s_%s.ndjson" % (label, rec["tid"]), [dict(rec, prop=prop)])
            verdict.violation(k, "recorded call %s is not allowed by %s_Step: %s" % (rec["tid"], prop, describe(rec)), rp)
        for (ti, li) in rejected[strict]:
            if li not in bad:
                drift.append(chunks[ci][li - 1])
    for k, n in perkey.items():
        if n > 2:
            log("[judge] %d recorded calls rejected with key '%s' (2 reported)" % (n, k))
    log("[judge] %s: %d events in %d chunk(s) validated by TLC in %.1fs, %d rejected by %s, %d strict-only" %
        (label, len(steps), len(chunks), time.time() - t0, nrej, fml, len(drift)))
    return len(steps)


def execute(prop, binp, wd, plan, tier):
    planp, outp = os.path.join(wd, "plan.json"), os.path.join(wd, "obs.ndjson")
    with open(planp, "w") as f:
        json.dump(plan, f)
    rc, out, err, summ = vlib.run_harness(binp, "TestVerifReqParam", {"VERIF_PLAN": planp, "VERIF_OUT": outp, "VERIF_TIER": tier}, timeout=1500)
    if rc != 0 or not summ:
        raise NoVerdict("reqparam harness failed (rc=%d):\n%s\n%s" % (rc, out[-3000:], err[-3000:]))
    return vlib.read_ndjson(outp), summ


def replay(prop, path):
    """Re-execute the recorded inputs of a replay file on the real code and let TLC judge them again."""
    old = vlib.read_ndjson(path)
    binp = build(prop)
    wd = vlib.workdir(prop, "replay_run")
    g, rounds = CFG[prop]["conc"]["quick"]
    longn = max([(r.get("info") or {}).get("n", 0) for r in old if r.get("ev") == "step" and r["e"].get("op") == "tidlong"] + [0])
    plan = {"prop": prop, "cases": [], "random": 0, "hist": 0, "conc": {"g": g, "rounds": rounds}, "long": longn,
            "replays": [{"e": {"op": r["e"]["op"]}, "info": r.get("info")} for r in old if r.get("ev") == "step"]}
    recs, summ = execute(prop, binp, wd, plan, "quick")
    verdict, drift = vlib.Verdict(prop), []
    judge(prop, verdict, recs, "replay", drift)
    for r in recs:
        if r.get("ev") == "step":
            log("replayed: %s" % describe(r))
    return verdict.finish()


def run(prop, tier):
    t0 = time.time()
    conf = CFG[prop]
    verdict, drift = vlib.Verdict(prop), []
    binp = build(prop)
    cases, seen, states, transitions = [], set(), 0, 0
    for cfgname in conf[tier]:
        wd = vlib.workdir(prop, "mc_" + cfgname)
        r, cs = model_check(prop, cfgname, wd)
        states, transitions = states + r.distinct, transitions + r.generated
        del r
        for c in cs:
            k = json.dumps(c, sort_keys=True)
            if k not in seen:
                seen.add(k)
                cases.append(c)
    # every action of the enumerating state machine must have walked at least one case
    fired = set()
    for c in cases:
        k, cc = c["k"], c["c"]
        if k == "c14":
            cmd = cc["cmd"]
            fired.add("DoJsonObject" if cmd in ("json_ok", "json_nover", "json_nouser", "json_nohost") else "DoJsonNull" if cmd == "json_null"
                      else "DoLegacy" if cmd.startswith("leg_") else "DoEmpty" if cmd == "empty" else "DoGarbage" if cmd == "garbage" else "DoOtherJson")
        else:
            fired.add({"leg": "DoLegacyText", "dec": "DoDecode"}.get(k) or ("DoRoundTripJson" if cc["ifVer"] >= 7 else "DoRoundTripLegacy"))
    want = {"C14": {"DoJsonObject", "DoJsonNull", "DoOtherJson", "DoLegacy", "DoEmpty", "DoGarbage"},
            "C15": {"DoRoundTripJson", "DoRoundTripLegacy", "DoLegacyText", "DoDecode"}}[prop]
    zero = sorted(want - fired)
    if zero:
        raise NoVerdict("vacuous: actions %s walked no case" % zero)
    g, rounds = conf["conc"][tier]
    plan = {"prop": prop, "cases": cases, "random": conf["random"][tier], "replays": [], "hist": conf["hist"][tier], "conc": {"g": g, "rounds": rounds},
            "long": conf["long"][tier]}
    recs, summ = execute(prop, binp, wd, plan, tier)
    steps = [x for x in recs if x.get("ev") == "step"]
    ncase = sum(1 for x in steps if (x.get("info") or {}).get("xok", "na") != "na")
    if len(steps) < len(cases) or summ["events"] != len(steps):
        raise NoVerdict("harness recorded %d events for %d cases" % (len(steps), len(cases)))
    if prop == "C14" and summ["ok14"] < 32:
        raise NoVerdict("vacuous: only %d successful NewReqParam calls" % summ["ok14"])
    nval = judge(prop, verdict, recs, conf[tier][0], drift)
    dk = {}
    for d in drift:
        dk.setdefault(vkey(d["e"]), []).append(d)
    for k, ds in dk.items():
        log("SPEC-DRIFT (precise design only; no listed property rejects it): %d recorded call(s) with key '%s', e.g. %s" % (len(ds), k, describe(ds[0])[:500]))
    samples = []
    seen = set()
    for x in steps:
        k = (x["e"]["op"], (x.get("info") or {}).get("cls"), json.dumps(x["e"].get("res", x["e"].get("enc")), sort_keys=True)[:12])
        if k not in seen and len(samples) < 6:
            seen.add(k)
            samples.append([json.loads(json.dumps(describe_obj(x))[:100000])] if len(json.dumps(describe_obj(x))) < 100000 else [{"op": x["e"]["op"], "note": "large input omitted"}])
    cov = {"states": states, "transitions": transitions, "traces_validated_against_impl": nval,
           "samples": samples or [["(no call was logged)"]], "exhaustive": True,
           "evaluations": nval, "distinct_nontrivial": len(summ["classes"]),
           "rule": "every case of the bounded decision table exported by TLC is instantiated with concrete strings and run through the real functions; "
                   "distinct_nontrivial = distinct (input class, JSON reading, outcome) combinations observed; every recorded call (table cases and seeded free inputs) is judged by TLC with %s_Step" % prop,
           "table_cases_replayed": len(cases), "table_case_events": ncase, "free_input_events": nval - ncase,
           "concurrent_events": sum(n for k, n in summ["classes"].items() if "conc" in k), "concurrent_goroutines": g,
           "long_history_calls": conf["long"][tier],
           "history_events": sum(n for k, n in summ["classes"].items() if "/hist/" in k),
           "successful_calls": summ.get("ok14"), "panics_observed": summ["pan"], "spec_drift": len(drift),
           "classes_observed": summ["classes"], "zero_coverage_actions": zero, "model_cfgs": conf[tier]}
    rc = verdict.finish()
    vlib.write_evidence(prop, tier, "model_checking", cov,
                        ["the classification of input text (JSON kind, decodability as an attribute object via a mirror struct, lexical atoms, version class) is done by the harness with the Go standard library",
                         "the first SSH_CONNECTION field is validated independently (netip.ParseAddr without zone, logged as conn.strict) and cross-checked against the driver's classes",
                         "transaction-id freshness is judged over all successful calls of one process (sorted list, adjacent ids distinct)"],
                        time.time() - t0, len(verdict.violations))
    return rc
