#!/bin/sh
# usage: tools/mutant.sh <name> <Cxx> [tier]   applies mutants/<name>.diff to a scratch worktree and runs the check there
set -e
name=$1; prop=$2; tier=${3:-quick}
wt=/tmp/verif_mut_$name
git -C /repo worktree remove --force $wt 2>/dev/null || true
git -C /repo worktree add --detach $wt HEAD >/dev/null 2>&1
( cd $wt && git apply /verif/mutants/$name.diff )
( cd $wt && GOFLAGS=-mod=mod GOPROXY=off GOSUMDB=off go build ./... ) 
set +e
VERIF_REPO=$wt /verif/bin/check $prop --tier $tier > /tmp/verif_mut_$name.out 2>/tmp/verif_mut_$name.err
rc=$?
echo "mutant=$name prop=$prop rc=$rc $(grep -c '^VIOLATION' /tmp/verif_mut_$name.out) violation lines"
grep '^VIOLATION' /tmp/verif_mut_$name.out | head -3 | cut -c1-300
git -C /repo worktree remove --force $wt
exit 0
