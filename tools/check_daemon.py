#!/usr/bin/env python3
"""Entry point of the daemon composition check: check_daemon.py [--tier quick|thorough] [--replay path]
Exit codes as for bin/check: 0 = D1..D5 held on everything explored, 1 = `VIOLATION property=DMN-D<n> replay=<path>`,
2 = no verdict."""
import sys, os, argparse, traceback
sys.path.insert(0, os.path.dirname(os.path.abspath(__file__)))
for k, v in dict(GOFLAGS="-mod=mod", GOPROXY="off", GOSUMDB="off", GOTOOLCHAIN="local").items():
    os.environ.setdefault(k, v)
import vlib
import fam_daemon


def main():
    ap = argparse.ArgumentParser()
    ap.add_argument("--tier", default=os.environ.get("VERIF_TIER", "quick"), choices=["quick", "thorough"])
    ap.add_argument("--replay", default=None)
    a = ap.parse_args()
    try:
        if a.replay:
            return fam_daemon.replay("DMN", a.replay)
        return fam_daemon.run("DMN", a.tier)
    except vlib.NoVerdict as e:
        print("NO-VERDICT property=DMN: %s" % e, file=sys.stderr)
        return 2
    except Exception:
        traceback.print_exc()
        print("NO-VERDICT property=DMN: internal error of the checking machinery", file=sys.stderr)
        return 2


if __name__ == "__main__":
    sys.exit(main())
