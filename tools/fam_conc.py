"""C11: ShimConc.tla (micro-step concurrency model with the MEASURED lock table) + forced-overlap experiments and
concurrent batches on the real shim under the race detector + linearisation search by TLC (TraceLin.tla)."""
import json, os, re, time
import vlib
from vlib import NoVerdict, log

OVERLAY = {"agent/shimagent/zz_verif_shim_test.go": os.path.join(vlib.HARNESS, "shim", "zz_verif_shim_test.go"),
           "agent/shimagent/zz_verif_conc_test.go": os.path.join(vlib.HARNESS, "conc", "zz_verif_conc_test.go")}
ORDER = {"N": 0, "R": 1, "W": 2}
UC_CFG = '''CONSTANTS
  Keys = {"k1", "k2"}
  Certs <- UCCerts
  CertKey <- UCCertKey
  V0 <- UCV0
  V1 <- UCV1
  Yss <- UCYss
  Pass = {"p1", "p2"}
  Modes = {TRUE, FALSE}
  Ops <- AllOps
  FaultKinds = {}
'''


def race_reports(text):
    """Split race detector output into reports; key = exported Server methods on the two stacks (or, for races
    below the connection handlers, the outermost function of agent/yubiagent that is not harness code)."""
    out = []
    for rep in text.split("WARNING: DATA RACE")[1:]:
        rep = rep.split("==================")[0]
        parts = re.split(r"\n(?=Previous |Goroutine )", rep)
        stacks = [p for p in parts if re.match(r"\s*(Write|Read|Previous)", p)]
        names = []
        for st in stacks[:2]:
            ms = re.findall(r"shimagent\.\(\*Server\)\.([A-Z]\w*)\(\)", st)
            if not ms:
                # frames come in pairs "function()\n    file:line"; drop harness frames (zz_verif*, verifh)
                fr = re.findall(r"^\s+(\S+)\(\)\n\s+(\S+):\d+", st, re.M)
                ms = [f.split("/")[-1] for f, src in fr if "ysshra/agent/" in f and "zz_verif" not in src and "/verifh/" not in src]
            names.append(ms[-1] if ms else None)   # outermost one on that stack
        out.append((names, rep.strip()[:4000]))
    return out


CONN_CFG = """SPECIFICATION TraceSpec
CONSTANTS
  Conns = {1,2,3,4,5,6,7,8,9,10,11,12,13,14,15,16}
  MaxReq = 0
  Shared = FALSE
INVARIANT OwnReply
POSTCONDITION TraceAccepted
CHECK_DEADLOCK FALSE
"""


def conn_stage(prop, tier, verdict):
    """Connection level: K client connections served by the real yubiagent.ServeAgent on one real shim.
    ConnServe.tla is model-checked (and its broken variant must fail); the recorded events are validated by TLC."""
    info = {}
    # ---- the model
    mwd = vlib.workdir(prop, "mc_conn")
    info["states"] = info["transitions"] = 0
    for cfg in (["MCConnServe.cfg"] if tier == "quick" else ["MCConnServe.cfg", "MCConnServe_t.cfg"]):
        r = vlib.tlc(mwd, "ConnServe.tla", cfg, workers=8, timeout=3000)
        if r.violated or r.error or "Model checking completed. No error" not in r.stdout:
            raise NoVerdict("ConnServe: the MODEL fails under %s (%s): %s" % (cfg, r.violated, r.error or r.stdout[-1500:]))
        info["states"] += r.distinct
        info["transitions"] += r.generated
    rb = vlib.tlc(mwd, "ConnServe.tla", "MCConnServe_broken.cfg", workers=4, timeout=600)
    if rb.violated != "OwnReply":
        raise NoVerdict("ConnServe: the broken variant (recycled buffer) does not violate OwnReply - the invariant is vacuous")
    log("[tlc] ConnServe: %d generated / %d distinct, %.1fs; broken variant violates OwnReply as it must" % (r.generated, r.distinct, r.wall))
    # ---- the real code
    binp = vlib.build_harness("connconc", "agent/yubiagent",
                              {"agent/yubiagent/zz_verif_connconc_test.go": os.path.join(vlib.HARNESS, "connconc", "zz_verif_connconc_test.go")},
                              race=True, outdir=os.path.join(vlib.OUT, prop, "bin"))
    wd = vlib.workdir(prop, "conn")
    outp = os.path.join(wd, "conn_all.ndjson")
    env = {"VERIF_OUT": outp, "VERIF_TIER": tier, "VERIF_CONN_ROUNDS": "14" if tier == "quick" else "80", "GORACE": "halt_on_error=0"}
    rc, out, err, summ = vlib.run_harness(binp, "TestVerifConnConc", env, timeout=3000)
    text = err + out
    real = 0
    if not summ:
        m = re.search(r"fatal error: (concurrent map[^\n]*|all goroutines are asleep[^\n]*)", text)
        if m:
            verdict.violation("crash:" + m.group(1), "the process serving the connections died: " + m.group(0),
                              vlib.save_replay(prop, "conn_crash.txt", text[-6000:]))
            return info, 1
        raise NoVerdict("connection-level harness did not finish (rc=%d):\n%s\n%s" % (rc, out[-3000:], err[-3000:]))
    for names, rtext in race_reports(text):
        if not any(names):
            raise NoVerdict("the race detector reports a race outside agent/shimagent and agent/yubiagent (harness race?):\n" + rtext)
        k = "race:" + "+".join(sorted(n or "?" for n in names))
        verdict.violation(k, "data race between connection handlers reported by the race detector",
                          vlib.save_replay(prop, "race_%s.txt" % re.sub(r"\W", "_", k), rtext))
        real += 1
    evs = vlib.read_ndjson(outp)
    rounds = []
    for e in evs:
        if e["ev"] == "reset":
            rounds.append([])
        rounds[-1].append(e)
    info.update(rounds=len(rounds), events=len(evs), requests=summ.get("requests", 0))
    rejected = 0
    for _ in range(8):
        vlib.write_ndjson(os.path.join(wd, "conn.ndjson"), [e for rd in rounds for e in rd])
        with open(os.path.join(wd, "conn.cfg"), "w") as f:
            f.write(CONN_CFG)
        rt = vlib.tlc(wd, "TraceConn.tla", "conn.cfg", workers=1, timeout=3000)
        if "Model checking completed. No error" in rt.stdout and not rt.violated and not rt.error:
            break
        m = re.search(r'^<<"REJ", (\d+), "(.*)">>$', rt.stdout, re.M)
        if not m and not rt.violated:
            raise NoVerdict("trace validation against ConnServe failed: %s" % (rt.error or rt.stdout[-2000:]))
        if m:
            line = json.loads(json.loads('"' + m.group(2) + '"'))
        else:
            line = {"ev": "invariant " + str(rt.violated), "round": -1, "shape": ""}
        bad = [i for i, rd in enumerate(rounds) if rd[0]["round"] == line.get("round")]
        k = "conn:%s:%s" % (line["ev"], re.sub(r"[^a-z-].*", "", line.get("shape") or ""))
        what = {"up": "the underlying agent received a request that is not the pending request of that connection (altered, duplicated or never sent)",
                "recv": "a client did not receive the reply to its own request",
                "hang": "connections did not all complete (watchdog)"}.get(line["ev"], "the observed event is not a step of ConnServe")
        verdict.violation(k, what + ": " + json.dumps(line),
                          vlib.save_replay(prop, "conn_round%s.ndjson" % line.get("round"), rounds[bad[0]] if bad else [line]))
        real += 1
        rejected += 1
        if not bad:
            break
        del rounds[bad[0]]
    info["rounds_rejected"] = rejected
    log("[conn] %d rounds, %d events, %d requests; %d rounds rejected by ConnServe" % (info["rounds"], info["events"], info["requests"], rejected))
    return info, real


def run(prop, tier):
    t0 = time.time()
    verdict = vlib.Verdict(prop)
    binp = vlib.build_harness("conc", "agent/shimagent", OVERLAY, race=True, outdir=os.path.join(vlib.OUT, prop, "bin"))
    wd = vlib.workdir(prop, "run")
    outp = os.path.join(wd, "conc.ndjson")
    env = {"VERIF_OUT": outp, "VERIF_TIER": tier, "VERIF_CONC_REPS": "1" if tier == "quick" else "4",
           "VERIF_CONC_BATCHES": "80" if tier == "quick" else "600", "VERIF_CONC_PATIENCE_S": "12" if tier == "quick" else "35",
           "GORACE": "halt_on_error=0"}
    rc, out, err, summ = vlib.run_harness(binp, "TestVerifConc", env, timeout=3000)
    if not summ:
        m = re.search(r"fatal error: (concurrent map[^\n]*)", err + out)
        if m:
            verdict.violation("crash:" + m.group(1), "the process died under concurrent shim operations: " + m.group(0),
                              vlib.save_replay(prop, "conc_crash.txt", (err + out)[-6000:]))
            rcode = verdict.finish()
            vlib.write_evidence(prop, tier, "model_checking", {"states": 0, "transitions": 0, "traces_validated_against_impl": 0, "samples": [["crash"]]},
                                ["the run ended with a fatal runtime error of the process under test"], time.time() - t0, len(verdict.violations))
            return rcode
        raise NoVerdict("concurrency harness did not finish (rc=%d):\n%s\n%s" % (rc, out[-3000:], err[-3000:]))
    recs = vlib.read_ndjson(outp)
    table = [r for r in recs if r["ev"] == "measure"][0]["table"]
    leaks = [r for r in recs if r["ev"] == "leaks"][0]["table"]
    exps = [r["e"] for r in recs if r["ev"] == "exp"]
    batches = [r for r in recs if r["ev"] == "batch"]
    # every completed forced-overlap experiment is also a batch of two for the linearisation search
    for i, e in enumerate(exps):
        if e.get("labA") and e.get("labB") and not e["hang"]:
            batches.append({"ev": "batch", "bid": "x%d_%s_%s_%d" % (i, e["A"], e["B"], e["hold"]), "init": e["init"], "ops": [e["labA"], e["labB"]],
                            "final": e["final"], "hang": False, "overlaps": 0, "forced": True})
    m = re.search(r"VERIF-UNIVERSE (.*)", out)
    universe = json.loads(m.group(1))

    # ---- the model with the measured lock table
    mode = {}
    rawk = []
    for row in table:
        if row.get("hang"):
            verdict.violation("hang:" + row["op"], "the operation does not complete even without concurrent callers (self-deadlock)",
                              vlib.save_replay(prop, "hang_%s.json" % row["op"], row))
            mode[row["op"]] = "W"
            continue
        if not row["modes"]:
            raise NoVerdict("operation %s issued no upstream request during measurement" % row["op"])
        mode[row["op"]] = min(row["modes"], key=lambda x: ORDER[x])
        if any(row["raw"]):
            rawk.append(row["op"])
    log("[measure] lock table: %s raw: %s" % (json.dumps(mode, sort_keys=True), rawk))
    leaky = sorted(set(l["op"] for l in leaks if l["fired"] and not l["hang"] and l["held"] != "N"))
    log("[measure] error exits probed: %d, operations returning with Server.mu held: %s" % (len([l for l in leaks if l["fired"]]), leaky))
    twd = vlib.workdir(prop, "mc")
    cases = " [] ".join('k = "%s" -> "%s"' % (k, v) for k, v in sorted(mode.items()))
    with open(os.path.join(twd, "MCConcMeasured.tla"), "w") as f:
        f.write("---- MODULE MCConcMeasured ----\nEXTENDS MCConc\n"
                "\\* generated by tools/fam_conc.py from probes of the real Server.mu / agent client mutex\n"
                "Measured == [k \\in Kinds |-> CASE %s]\n" % cases +
                "RawK == {%s}\n" % ", ".join('"%s"' % k for k in rawk) +
                "MeasuredLeaky == {%s}\n" % ", ".join('"%s"' % k for k in leaky) +
                "Sub(s, a, c) == [i \\in DOMAIN s |-> IF s[i] = a THEN c ELSE s[i]]\n"
                "PM == [k \\in Kinds |-> IF k \\in RawK THEN Sub(P[k], \"call\", \"raw\") ELSE Sub(P[k], \"raw\", \"call\")]\n====\n")
    threads = "T2" if tier == "quick" else "T3"
    with open(os.path.join(twd, "conc.cfg"), "w") as f:
        f.write("SPECIFICATION Spec\nCONSTANTS\n Threads <- %s\n OpKinds <- Kinds\n LockMode <- Measured\n Prog <- PM\n Leaky <- MeasuredLeaky\n"
                "INVARIANTS TableExclusion WireExclusion OwnReply RWSane NoLeak\nPROPERTY AllDone\nCHECK_DEADLOCK FALSE\n" % threads)
    r = vlib.tlc(twd, "MCConcMeasured.tla", "conc.cfg", workers=8, timeout=3000)
    model_viol = None
    if r.violated:
        ops = re.findall(r'op = \(([^)]*)\)', r.stdout)
        model_viol = {"invariant": r.violated, "ops": ops[-1] if ops else "?"}
        log("[tlc] MODEL counterexample with the measured table: %s" % json.dumps(model_viol))
        # keep going until every invariant's status is known: rerun one invariant at a time
        model_viol["all"] = []
        for inv in ("TableExclusion", "WireExclusion", "OwnReply", "NoLeak"):
            with open(os.path.join(twd, "one.cfg"), "w") as f:
                f.write("SPECIFICATION Spec\nCONSTANTS\n Threads <- T2\n OpKinds <- Kinds\n LockMode <- Measured\n Prog <- PM\n Leaky <- MeasuredLeaky\n"
                        "INVARIANT %s\nCHECK_DEADLOCK FALSE\n" % inv)
            r1 = vlib.tlc(twd, "MCConcMeasured.tla", "one.cfg", workers=4, timeout=1200)
            if r1.violated:
                o = re.findall(r'op = \(([^)]*)\)', r1.stdout)
                model_viol["all"].append({"invariant": inv, "ops": o[-1] if o else "?"})
    elif r.error or "Model checking completed. No error" not in r.stdout:
        raise NoVerdict("TLC failed on ShimConc: %s" % (r.error or r.stdout[-2000:]))
    states, trans = r.distinct, r.generated
    log("[tlc] ShimConc(%s, measured): %d generated / %d distinct, %.1fs%s" % (threads, trans, states, r.wall, " VIOLATED " + r.violated if r.violated else ""))

    # ---- real-code observations
    real = 0
    reps = race_reports(err + out)
    for names, text in reps:
        if not any(names):
            raise NoVerdict("the race detector reports a race that does not involve shimagent.Server (harness race?):\n" + text)
        k = "race:" + "+".join(sorted(n or "?" for n in names))
        rp = vlib.save_replay(prop, "race_%s.txt" % re.sub(r"\W", "_", k), text)
        verdict.violation(k, "data race on the shim's shared state reported by the race detector", rp)
        real += 1
    for l in leaks:
        if l["hang"]:
            k = "hang:%s:%s" % (l["op"], l["kind"])
            verdict.violation(k, "the operation does not return when its upstream request %d is answered with fault %s" % (l["k"], l["kind"]),
                              vlib.save_replay(prop, "leak_%s_%s_%d.json" % (l["op"], l["kind"], l["k"]), l))
            real += 1
        elif l["fired"] and l["held"] != "N":
            k = "leak:%s:%s" % (l["op"], l["kind"])
            verdict.violation(k, "the operation returned with Server.mu still held (%s) after upstream request %d was answered with fault %s; a following operation %s"
                              % (l["held"], l["k"], l["kind"], "did not complete" if l["next_hang"] else "completed"),
                              vlib.save_replay(prop, "leak_%s_%s_%d.json" % (l["op"], l["kind"], l["k"]), l))
            real += 1
    seen = set()
    for e in exps:
        pair = "+".join(sorted([e["A"], e["B"]]))
        if e["overlaps"] and ("wire", pair) not in seen:
            seen.add(("wire", pair))
            verdict.violation("wire:" + pair, "a second request was written to the single upstream connection while %s's request %d was outstanding%s"
                              % (e["A"], e["hold"], " (left unanswered for %d ms)" % e["patience_ms"] if e.get("patience_ms", 0) > 1000 else ""),
                              vlib.save_replay(prop, "wire_%s.json" % pair, e))
            real += 1
        if e["hang"] and ("hang", pair) not in seen:
            seen.add(("hang", pair))
            verdict.violation("hang:" + pair, "operations did not complete within 30 s", vlib.save_replay(prop, "hang_%s.json" % pair, e))
            real += 1
        if (e["panA"] or e["panB"]) and ("pan", pair) not in seen:
            seen.add(("pan", pair))
            verdict.violation("panic:" + pair, "an operation panicked under concurrency", vlib.save_replay(prop, "panic_%s.json" % pair, e))
            real += 1
    for b in batches:
        kinds = "+".join(sorted(set(o["op"] for o in (b.get("ops") or []))))
        if b["hang"]:
            verdict.violation("hang:batch", "a batch of concurrent operations did not complete within 40 s", vlib.save_replay(prop, "hang_%s.json" % b["bid"], b))
            real += 1
        elif b["overlaps"]:
            ops = set(o["op"] for o in b["ops"])
            k = "wire:" + "+".join(sorted(ops & {"extension", "forward"})) if ops & {"extension", "forward"} else "wire:" + kinds
            if ("wireb", k) not in seen:
                seen.add(("wireb", k))
                verdict.violation(k, "overlapping requests on the single upstream connection in a concurrent batch", vlib.save_replay(prop, "wire_%s.json" % b["bid"], b))
                real += 1

    # ---- linearisation of the batches by TLC
    lin = [b for b in batches if not b["hang"] and len(b["ops"]) <= (7 if tier == "quick" else 9)]
    lwd = vlib.workdir(prop, "lin")
    vlib.write_ndjson(os.path.join(lwd, "batches.ndjson"), [{"init": b["init"], "ops": b["ops"], "final": b["final"]} for b in lin])
    with open(os.path.join(lwd, "lin.cfg"), "w") as f:
        f.write("SPECIFICATION LSpec\n" + UC_CFG + "CONSTRAINT Report\nCHECK_DEADLOCK FALSE\n")
    rl = vlib.tlc(lwd, "TraceLin.tla", "lin.cfg", workers=8, timeout=3000)
    if rl.error or rl.violated or "Model checking completed. No error" not in rl.stdout:
        raise NoVerdict("linearisation search failed: %s" % (rl.error or rl.violated or rl.stdout[-2000:]))
    okb = set(int(x) for x in re.findall(r'^<<"LIN", (\d+)>>', rl.stdout, re.M))
    nolin = [lin[i] for i in range(len(lin)) if (i + 1) not in okb]
    for b in nolin:
        kinds = "+".join(sorted(set(o["op"] for o in b["ops"])))
        verdict.violation("lin:" + kinds, "no sequential ordering of the batch explains the observed results and final state",
                          vlib.save_replay(prop, "lin_%s.json" % b["bid"], b))
        real += 1
    log("[lin] %d batches searched, %d without a sequential explanation (%d states, %.1fs)" % (len(lin), len(nolin), rl.distinct, rl.wall))

    real += len([r for r in table if r.get("hang")])
    conn_info, conn_real = conn_stage(prop, tier, verdict)
    real += conn_real
    if model_viol and real == 0:
        raise NoVerdict("the model with the measured lock table violates %s (%s) but no race, overlap, hang or unexplained batch was "
                        "observed on the real code: counterexample not reproduced" % (model_viol["invariant"], model_viol["ops"]))
    # universe consistency between harness and spec
    un = vlib.tlc_json_lines(rl.stdout, "UN")
    cov = {"states": states + rl.distinct + conn_info.get("states", 0), "transitions": trans + rl.generated + conn_info.get("transitions", 0),
           "traces_validated_against_impl": len(lin) + conn_info.get("rounds", 0) - conn_info.get("rounds_rejected", 0),
           "samples": [{"lock_table": mode, "raw": rawk}] + [{"batch": [(o["op"], o["arg"], o["res"]["ok"]) for o in b["ops"]], "final_under": b["final"]["u"], "final_mem": b["final"]["m"]} for b in lin[:3]],
           "evaluations": len(exps) + len(batches), "distinct_nontrivial": len(set((e["A"], e["B"], e["hold"]) for e in exps if e["reached"])),
           "rule": "forced-overlap experiments (A suspended inside its k-th upstream request, B started) for every ordered pair of operation kinds; distinct_nontrivial = distinct (A, B, k) reached; concurrent batches of 2..16 goroutines",
           "model": {"threads": threads, "lock_table_measured": mode, "model_violation": model_viol},
           "connection_level": conn_info, "error_exits_probed": len([l for l in leaks if l["fired"]]), "race_reports": len(reps), "batches_linearised": len(lin), "batches_total": len(batches), "experiments": len(exps)}
    rcode = verdict.finish()
    vlib.write_evidence(prop, tier, "model_checking", cov,
                        ["Prog (segments per operation) is transcribed by reading shimserver.go; LockMode and raw/call are measured",
                         "the Go race detector and the connection monitor are observers reproducing model counterexamples on the code",
                         "connection level: 2..8 (thorough: up to 16) client connections served by the real ServeAgent on one shim; every recorded event is validated against ConnServe.tla by TLC",
                         "16-goroutine batches are checked for races/overlap/hangs; batches of <= 7 (quick) / 9 (thorough) operations are linearised by TLC"],
                        time.time() - t0, len(verdict.violations))
    return rcode


def replay(prop, path):
    log("C11 replay files are observation records (race report text / experiment / batch); re-run the check to reproduce: "
        "schedules are forced by the harness, not replayed from a file")
    print(open(path).read()[:4000])
    return run(prop, "quick")
