"""C05, C19: KeyID.tla checked with TLC, bound to keyid / sshutils/cert / agent/shimagent by case replay and trace validation.

Per run: (1) TLC model-checks the property formula (P_Cxx, Inv_Cxx), the sanity theorems (ASSUMEs of MCKeyID) and the
self-consistency of the strict oracle on the bounded model and exports every case; (2) the Go harness replays every case on
the real code with concrete strings and runs the seeded random drivers, recording one event per call; (3) TLC judges every
recorded event with C05_Step / C19_Step (TraceKeyID.tla).  Only a rejected recorded event is a VIOLATION."""
import json, os, time, shutil
import vlib
from vlib import NoVerdict, log

CFG = {
    "C05": dict(quick="MCKeyID_q05", thorough="MCKeyID_t05",
                random=dict(quick={"enc": 4000, "dec": 12000, "mseq": 500, "conc": 500},
                            thorough={"enc": 60000, "dec": 150000, "mseq": 5000, "conc": 5000}),
                ops=("enc", "dec"), kinds=["dec", "enc", "junk", "mut"], actions=("EncCase", "DecCase", "MutCase", "JunkCase")),
    "C19": dict(quick="MCKeyID_q19", thorough="MCKeyID_t19",
                random=dict(quick={"cert": 15000, "certpair": 1500, "prins": 1000, "shim": 1440}, thorough={"cert": 200000, "certpair": 20000, "prins": 5000, "shim": 14400}),
                ops=("cert", "prins", "shim"), kinds=["cert", "certjunk", "certpair", "nil", "prins", "shim"],
                actions=("CertCase", "CertJunkCase", "CertPairCase", "NilCase", "PrinsCase", "ShimCase")),
}
# the trace module needs no value space: it only applies the spec's operators to recorded values
TRACE_CFG = "SPECIFICATION TraceSpec\nCONSTANTS\n  TPs = {1}\n  Usages = {0}\n  Vers = {1}\n  Kinds = {}"
CHUNK = 25000
OVERLAY = {"agent/shimagent/zz_verif_keyid_test.go": os.path.join(vlib.HARNESS, "keyid", "zz_verif_keyid_test.go")}


def build(prop):
    return vlib.build_harness("keyid", "agent/shimagent", OVERLAY, outdir=os.path.join(vlib.run_root(prop), "bin"))


def vkey(rec):
    e = rec["e"]
    c = e["cs"]
    k = "op=%s kind=%s" % (e["op"], c["kind"])
    if c["kind"] == "mut":
        k += " f=%s m=%s" % (c["f"], c["m"])
    if c["kind"] in ("junk", "certjunk"):
        k += " j=%s" % c["j"]
    if e["pan"]:
        k += " pan=true"
    return k


def describe(rec):
    e = dict(rec["e"])
    info = rec.get("info") or {}
    txt = ""
    if info.get("text"):
        try:
            txt = bytes.fromhex(info["text"]).decode("utf-8", "backslashreplace")
        except ValueError:
            txt = info["text"]
    fields = {"enc": ("k", "ok", "rep", "dok", "dk", "present", "sin", "sout", "pan"),
              "dec": ("ok", "dk", "present", "pan", "rep", "ok1", "dk1", "sout", "s1"),
              "cert": ("nil", "rep", "ok", "dk", "present", "opt", "ty", "lok", "label", "tid", "pin", "pout", "pafter", "pan"),
              "prins": ("tyin", "pin", "pout", "pafter", "rep", "pfirst", "pfirst2", "pan"),
              "shim": ("ok", "dk", "opt", "tid", "ocmt", "found", "cmt", "pan")}.get(e["op"], tuple(e))
    short = {k: e[k] for k in fields}
    case = {k: v for k, v in e["cs"].items() if v not in ("", 0) and not (k == "k" and e["cs"]["kind"] in ("free", "junk", "certjunk", "nil", "prins"))}
    out = "%s case %s observed %s" % (e["op"], json.dumps(case), json.dumps(short))
    if txt:
        out += "; KeyID text %r" % txt[:500]
    if info.get("kid"):
        out += "; KeyID %s" % json.dumps(info["kid"], ensure_ascii=False)
    if info.get("crit") is not None:
        out += "; critical options %s" % json.dumps(info["crit"], ensure_ascii=False)
    return out


def judge(prop, verdict, recs, label, drift):
    """TLC judges one chunk of recorded events (step records); files violations of prop.
    Returns (#events judged, tids rejected by the property formula)."""
    twd = vlib.workdir(prop, "tv_%s" % label)
    trace = [{"ev": "reset", "tid": label}] + recs
    rejected, st = vlib.validate_traces(prop, twd, "TraceKeyID.tla", TRACE_CFG, ["T" + prop, "Strict"], [trace], strip=("exp", "info"))
    log("[tlc] judged %d events (chunk %s) in %.1fs" % (len(recs), label, st["wall"]))
    bad = {}
    for (ti, li) in rejected["T" + prop]:
        rec = trace[li]
        bad[li] = rec["tid"]
        rp = vlib.save_replay(prop, "%s_%s.ndjson" % (vlib.RUN_ID, rec["tid"]), [dict(rec, prop=prop)]) if len(verdict.violations) < 25 else "(not saved)"
        verdict.violation(vkey(rec), "event %s is rejected by %s_Step: %s" % (rec["tid"], prop, describe(rec)), rp)
    for (ti, li) in rejected["Strict"]:
        if li not in bad and len(drift) < 1000:
            drift.append(trace[li])
    shutil.rmtree(twd, ignore_errors=True)
    return len(recs), list(bad.values())


def chunks(path):
    """Step records of an ndjson file in chunks of CHUNK (the file is streamed, not loaded)."""
    buf = []
    with open(path) as f:
        for line in f:
            if not line.strip():
                continue
            r = json.loads(line)
            if r.get("ev") != "step":
                continue
            buf.append(r)
            if len(buf) >= CHUNK:
                yield buf
                buf = []
    if buf:
        yield buf


def run_harness(prop, binp, wd, plan, timeout):
    planp, outp = os.path.join(wd, "plan.json"), os.path.join(wd, "obs.ndjson")
    with open(planp, "w") as f:
        json.dump(plan, f)
    rc, out, err, summ = vlib.run_harness(binp, "TestVerifKeyID", {"VERIF_PLAN": planp, "VERIF_OUT": outp}, timeout=timeout)
    if rc != 0 or not summ:
        raise NoVerdict("keyid harness failed (rc=%d):\n%s\n%s" % (rc, out[-3000:], err[-3000:]))
    return outp, summ


def replay(prop, path):
    """Re-execute recorded events (their concrete inputs) on the real code and judge them again."""
    if not os.path.exists(path):
        raise NoVerdict("replay file %s does not exist" % path)
    recs = [r for r in vlib.read_ndjson(path) if r.get("ev") == "step" and r.get("info")]
    if not recs:
        raise NoVerdict("no replayable event in %s" % path)
    binp = build(prop)
    wd = vlib.workdir(prop, "replay_run")
    plan = {"cases": [], "random": {}, "replays": [{"cs": r["e"]["cs"], "info": r["info"]} for r in recs]}
    outp, summ = run_harness(prop, binp, wd, plan, 600)
    verdict, drift = vlib.Verdict(prop), []
    for i, out in enumerate(chunks(outp)):
        judge(prop, verdict, out, "replay%d" % i, drift)
        for r in out[:50]:
            log(("replayed %s: %s" % (r["tid"], describe(r)))[:1500])
    for d in drift[:5]:
        log(("SPEC-DRIFT (strict conformance only): %s" % describe(d))[:600])
    return verdict.finish()


def run(prop, tier):
    t0 = time.time()
    conf = CFG[prop]
    verdict, drift = vlib.Verdict(prop), []
    binp = build(prop)

    # 1. the property on the bounded model, the sanity theorems, and the export of the case space
    cfg = conf[tier]
    wd = vlib.workdir(prop, "mc_" + cfg)
    r = vlib.tlc(wd, "MCKeyID.tla", cfg + ".cfg", workers=4, timeout=1500, coverage=(tier == "thorough"))
    if r.violated:
        raise NoVerdict("the MODEL violates %s under %s (model counterexample, not a verdict on the code):\n%s" % (r.violated, cfg, r.stdout[-3000:]))
    if r.error or "Model checking completed. No error" not in r.stdout:
        raise NoVerdict("TLC failed on %s (a false ASSUME is a sanity theorem of KeyID.tla that does not hold): %s" % (cfg, r.error or r.stdout[-2000:]))
    cases = vlib.tlc_json_lines(r.stdout, "CASE")
    un = vlib.tlc_json_lines(r.stdout, "UN")[0]
    states, transitions = r.distinct, r.generated
    zero = [a for a in r.coverage_zero if a in conf["actions"] or a == "Back"]
    log("[tlc] %s: %d generated / %d distinct, %d cases exported, %d KeyID values (%d encodable), %.1fs" %
        (cfg, r.generated, r.distinct, len(cases), un["keyids"], un["encodable"], r.wall))
    del r
    if len(cases) != states - 1 or not cases:
        raise NoVerdict("case export incomplete: %d cases for %d states" % (len(cases), states))
    if zero:
        raise NoVerdict("vacuous model run: actions never taken: %s" % zero)
    kinds = sorted({c["c"]["kind"] for c in cases})
    if kinds != conf["kinds"]:
        raise NoVerdict("vacuous model run: case kinds exported %s, expected %s" % (kinds, conf["kinds"]))

    # 2. replay of every case + random drivers on the real code
    plan = {"cases": [c["c"] for c in cases], "random": conf["random"][tier], "replays": []}
    outp, summ = run_harness(prop, binp, wd, plan, 3000)
    want_b = sum(conf["random"][tier].values())
    n_case = n_rep = n_rand = ok_case = ok_rand = judged = n_a = n_b = 0
    keep_a, keep_b = [], []
    for i, recs in enumerate(chunks(outp)):
        if any(x["e"]["op"] not in conf["ops"] for x in recs):
            raise NoVerdict("the harness recorded events outside %s" % (conf["ops"],))
        for x in recs:
            if x["tid"].startswith("a") and "." in x["tid"]:
                n_rep += 1       # a further call with the same input as a replayed case
            elif x["tid"].startswith("a"):
                n_case += 1
                ok_case += x["e"]["ok"]
                if n_case % max(1, len(cases) // 4) == 1 and len(keep_a) < 4:
                    keep_a.append(x)
            else:
                n_rand += 1
                ok_rand += x["e"]["ok"]
                if n_rand % max(1, want_b // 3) == 1 and len(keep_b) < 3:
                    keep_b.append(x)
        # 3. TLC judges every recorded event
        n, bad = judge(prop, verdict, recs, "c%d" % i, drift)
        judged += n
        n_a += sum(1 for t in bad if t.startswith("a"))
        n_b += sum(1 for t in bad if not t.startswith("a"))
    if n_case != len(cases):
        raise NoVerdict("the harness recorded %d case events for %d cases" % (n_case, len(cases)))
    if n_rand < want_b:
        raise NoVerdict("the random drivers recorded %d events, %d planned" % (n_rand, want_b))
    if (not ok_case or not ok_rand) and not verdict.violations and not verdict.known:
        raise NoVerdict("vacuous run: no call of the real code succeeded")
    log("[verdict] events rejected by %s_Step: %d replayed cases, %d random events; strict-only deviations: %d" % (prop, n_a, n_b, len(drift)))
    for d in drift[:5]:
        log(("SPEC-DRIFT (strict conformance only; %s_Step accepts it): %s %s" % (prop, vkey(d), describe(d)))[:600])
    if len(drift) > 5:
        log("(%d further strict-only deviations)" % (len(drift) - 5))

    def sample(x):
        e = x["e"]
        s = {"tid": x["tid"], "op": e["op"], "case": {k: v for k, v in e["cs"].items() if v not in ("", 0)}, "ok": e["ok"]}
        if e["op"] in ("enc", "dec"):
            s.update(dk=e["dk"], present=e["present"])
        else:
            s.update(opt=e["opt"], ty=e["ty"], label=e["label"], pout=e["pout"], cmt=e["cmt"])
        info = x.get("info") or {}
        if info.get("text"):
            s["text"] = bytes.fromhex(info["text"]).decode("utf-8", "backslashreplace")[:300]
        if info.get("kid"):
            s["kid"] = info["kid"]
        return s
    samples = [sample(x) for x in keep_a + keep_b]
    cov = {"states": states, "transitions": transitions, "traces_validated_against_impl": judged, "samples": samples,
           "exhaustive": True, "evaluations": n_case + n_rep + n_rand, "distinct_nontrivial": summ.get("distinct", 0),
           "rule": "every case of the bounded KeyID model (kinds %s; %d KeyID values, %d encodable) is replayed on the real code with concrete strings, "
                   "plus seeded random inputs; distinct_nontrivial = distinct (operation, verdict, decoded value, fields present, type, option, mutation) "
                   "combinations observed on the real code; every event is judged by TLC with %s_Step" % (kinds, un["keyids"], un["encodable"], prop),
           "cases_exported": len(cases), "case_kinds": kinds, "case_events": n_case, "repeated_call_events_of_cases": n_rep, "random_events": n_rand,
           "events_by_op": summ.get("by_op"), "successful_calls": summ.get("ok_events"), "spec_drift": len(drift), "rejected_case_events": n_a, "rejected_random_events": n_b,
           "keyid_values": un["keyids"], "encodable_values": un["encodable"], "model_cfg": cfg, "zero_coverage_actions": zero}
    rc = verdict.finish()
    vlib.write_evidence(prop, tier, "model_checking", cov,
                        ["strings in KeyIDs and comments are valid UTF-8 (the property quantifies over UTF-8 strings)",
                         "which fields a text contains is computed by the harness with its own scan of the top-level object (exact member names)",
                         "history independence is exercised within one process: repeated calls with the same input, every returned value overwritten "
                         "by the caller in between, a share of them from 4 goroutines at once"]
                        + ([] if prop == "C05" else
                           ["whether a certificate's KeyID decodes, and to what, is observed with keyid.Unmarshal itself (C05 governs that function)",
                            "the shim listing is observed in upstream mode over an x/crypto keyring with currently valid certificates"]),
                        time.time() - t0, len(verdict.violations))
    return rc
