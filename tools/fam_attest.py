"""C06, C16: Attest.tla checked with TLC (sanity theorems, property on the full case product), every exported case
replayed on the real attestation/yubiattest + agent/utils code, all observations judged by TLC (TraceAttest.tla)."""
import json, os, time, collections
import vlib
from vlib import NoVerdict, log

OVERLAY = {"attestation/yubiattest/zz_verif_attest_test.go": os.path.join(vlib.HARNESS, "attest", "zz_verif_attest_test.go"),
           "attestation/yubiattest/zz_verif_attest16_test.go": os.path.join(vlib.HARNESS, "attest", "zz_verif_attest16_test.go"),
           "attestation/yubiattest/zz_verif_attest_cross_test.go": os.path.join(vlib.HARNESS, "attest", "zz_verif_attest_cross_test.go"),
           "attestation/yubiattest/zz_verif_attest_epoch_test.go": os.path.join(vlib.HARNESS, "attest", "zz_verif_attest_epoch_test.go")}
TRACE_CFG = "SPECIFICATION TraceSpec\nCONSTANTS\n  MHBytes = {0}\n  MaxVal = 0\n  MutCtx <- MutCtxAll"
CONF = {
    "C06": dict(test="TestVerifAttest06", fml="TC06", strict="Strict06",
                quick=dict(cfg="MCAttest_06", bits=[1024, 2048, 3072], oddbits=[1030, 2041], nflip=40),
                thorough=dict(cfg="MCAttest_06t", bits=[1024, 1536, 2048, 3072, 4096], oddbits=[1025, 1030, 2041, 2047, 3071], nflip=400)),
    "C16": dict(test="TestVerifAttest16", fml="TC16", strict="Strict16",
                quick=dict(cfg="MCAttest_16", mutperpos=2, truncstep=3, mintevery=7, nrandmh=3000, reps=1, alt=400, bufreuse=300),
                thorough=dict(cfg="MCAttest_16", mutperpos=16, truncstep=1, mintevery=1, nrandmh=60000, reps=4, alt=6000, bufreuse=4000)),
}
CHUNK = 150000


def build(prop):
    return vlib.build_harness("attest", "attestation/yubiattest", OVERLAY, outdir=os.path.join(vlib.OUT, prop, "bin"))


def key_of(prop, e):
    r = e["res"]
    pan = str(r["pan"]).lower()
    if prop == "C06":
        return "op=attest via=%s label=%s scheme=%s attestor=%s epoch=%s kt=%s alg=%d rel=%s time=%s sf=%s mut=%s shape=%s acc=%s pan=%s" % (
            e.get("via", "value"), e.get("lab", "") or "-", e.get("sch", "-"), e.get("hist", "?"), e.get("now", 0), e["kt"] + ("-odd%d" % e.get("k", 0) if e.get("kc") == "odd" else ""), e["alg"], e["rel"], e["time"], e["sf"], e["mut"], e["em"]["shape"], str(r["acc"]).lower(), pan)
    if e["op"] == "modhex":
        return "op=modhex history=%s vlen=%d present=%s ok=%s pan=%s" % (e.get("hist", "-"), len(e["val"]), str(e["present"]).lower(), str(r["ok"]).lower(), pan)
    if e["op"] == "parse":
        return "op=parse history=%s kt=%s sa=%s tail=%s yok=%s sok=%s eq=%d pan=%s" % (e.get("hist", "-"), e["kt"], e["sa"], e["tail"], str(r["yok"]).lower(),
                                                                            str(r["sok"]).lower(), len(r["eq"]), pan)
    if e["op"] == "pem":
        return "op=pem n=%d lead=%s trail=%s ok=%s got=%d pan=%s" % (e["n"], e["lead"], e["trail"], str(r["ok"]).lower(), len(r["idx"]), pan)
    return "op=mut base=%s kind=%s pan=%s" % (e["kt"], e["sa"], pan)


def judge(prop, verdict, recs, label, meta, drift):
    """TLC validates the recorded events; rejected ones become violations of prop (with a replay file each)."""
    conf = CONF[prop]
    steps = [r for r in recs if r.get("ev") == "step"]
    n = 0
    for ci in range(0, max(len(steps), 1), CHUNK):
        chunk = [{"ev": "reset", "p": prop, "tid": "reset"}] + steps[ci:ci + CHUNK]
        twd = vlib.workdir(prop, "tv_%s_%d" % (label, ci // CHUNK))
        rejected, vst = vlib.validate_traces(prop, twd, "TraceAttest.tla", TRACE_CFG, [conf["fml"], conf["strict"]], [chunk])
        n += len(chunk) - 1
        bad = set()
        for (ti, li) in rejected[conf["fml"]]:
            rec = chunk[li]
            bad.add(li)
            k = key_of(prop, rec["e"])
            rp = "(not saved)"
            if len(verdict.violations) + len(verdict.known) < 40:
                rp = vlib.save_replay(prop, "%s_%s.ndjson" % (label, rec["tid"]), [{"ev": "reset", "p": prop, "tid": "reset", "meta": meta}, rec])
            verdict.violation(k, "recorded call %s is not allowed by %s of Attest.tla: %s" % (rec["tid"], conf["fml"], json.dumps(rec["e"])[:900]), rp)
        for (ti, li) in rejected[conf["strict"]]:
            if li not in bad:
                drift.append(chunk[li])
        log("[tlc] %s: %d recorded calls validated in %.1fs, %d rejected by %s, %d by %s" %
            (label, len(chunk) - 1, vst["wall"], len(rejected[conf["fml"]]), conf["fml"], len(rejected[conf["strict"]]), conf["strict"]))
    return n


def model_check(prop, tier):
    conf = CONF[prop][tier]
    wd = vlib.workdir(prop, "mc_" + conf["cfg"])
    r = vlib.tlc(wd, "MCAttest.tla", conf["cfg"] + ".cfg", workers=4, timeout=1500)
    if r.violated:
        raise NoVerdict("the MODEL violates %s under %s (model counterexample, not a verdict on the code):\n%s" % (r.violated, conf["cfg"], r.stdout[-3000:]))
    if r.error or "Model checking completed. No error" not in r.stdout:
        raise NoVerdict("TLC failed on %s: %s" % (conf["cfg"], r.error or r.stdout[-2000:]))
    cases, seen = [], set()
    for x in vlib.tlc_json_lines(r.stdout, "CASE"):
        k = json.dumps(x["c"], sort_keys=True)
        if k not in seen:
            seen.add(k)
            cases.append(x)
    log("[tlc] %s: %d generated / %d distinct states, %d cases exported, %.1fs" % (conf["cfg"], r.generated, r.distinct, len(cases), r.wall))
    if not cases:
        raise NoVerdict("TLC exported no case")
    return r, cases


def sample_of(e):
    s = {k: v for k, v in e.items() if k not in ("em", "der", "info")}
    if "em" in e:
        s["em"] = {k: e["em"][k] for k in ("shape", "lead", "bt", "sep", "dgh", "dgj")}
    return s


def run(prop, tier):
    t0 = time.time()
    conf, tc = CONF[prop], CONF[prop][tier]
    verdict, drift = vlib.Verdict(prop), []
    binp = build(prop)
    r, cases = model_check(prop, tier)
    wd = vlib.workdir(prop, "run")
    planp, outp = os.path.join(wd, "plan.json"), os.path.join(wd, "obs.ndjson")
    if prop == "C06":
        plan = {"c06": {"cases": cases, "bits": tc["bits"], "oddbits": tc["oddbits"], "nflip": tc["nflip"], "workers": 4}}
    else:
        plan = {"c16": {"cases": cases, "mutperpos": tc["mutperpos"], "truncstep": tc["truncstep"], "mintevery": tc["mintevery"], "nrandmh": tc["nrandmh"], "reps": tc["reps"], "alt": tc["alt"], "bufreuse": tc["bufreuse"]}}
    meta = {"tier": tier, "seed": vlib.seed(), "plan": {k: v for k, v in list(plan.values())[0].items() if k != "cases"}}
    with open(planp, "w") as f:
        json.dump(plan, f)
    rc, out, err, summ = vlib.run_harness(binp, conf["test"], {"VERIF_PLAN": planp, "VERIF_OUT": outp, "VERIF_TIER": tier}, timeout=3000)
    if rc != 0 or not summ:
        raise NoVerdict("attest harness failed (rc=%d):\n%s\n%s" % (rc, out[-3000:], err[-3000:]))
    recs = vlib.read_ndjson(outp)
    nval = judge(prop, verdict, recs, "run", meta, drift)
    steps = [x for x in recs if x.get("ev") == "step"]
    # vacuity guards: the run must have exercised what it claims
    if prop == "C06":
        nepoch = sum(1 for x in cases if x["c"]["time"] in ("lapsing", "becoming"))
        if nepoch == 0 or summ["epoch0_calls"] == 0 or summ["epoch1_calls"] == 0 or summ["epoch1_accepted"] == 0:
            raise NoVerdict("the epoch instance gave nothing to judge (%d cases, %d epoch-0 calls, %d epoch-1 calls, %d instances discarded by the time guard)"
                            % (nepoch, summ["epoch0_calls"], summ["epoch1_calls"], summ["epoch_instances_discarded"]))
        cases_t = cases
        cases = [x for x in cases if x["c"]["time"] not in ("lapsing", "becoming")]
        ncross = sum(1 for x in cases if x["c"].get("via") == "parsed")
        nodd = sum(1 for x in cases if x["c"].get("kc") == "odd" and x["c"]["em"]["lead"] != "FF")
        noddpo = sum(1 for x in cases if x["c"].get("kc") == "odd" and x["c"]["mut"] in ("dg", "pfx"))
        cases_o = cases
        cases = [x for x in cases if not (x["c"].get("kc") == "odd" and x["c"]["em"]["lead"] != "FF")]
        nrsa = sum(1 for x in cases if x["c"]["kt"] == "rsa" and x["c"]["em"]["lead"] != "FF" and x["c"].get("via") != "parsed")
        nff = sum(1 for x in cases if x["c"]["kt"] == "rsa" and x["c"]["em"]["lead"] == "FF")
        want = nrsa * len(tc["bits"]) + nff + (len(cases) - nrsa - nff - ncross) + ncross * sum(1 for b in tc["bits"] if 1536 <= b <= 3072) \
            + nodd * len(tc["oddbits"]) - (0 if tier == "thorough" else noddpo * (len(tc["oddbits"]) - 1))
        cases = cases_o
        if nodd == 0 or summ["odd_accepted"] == 0:
            raise NoVerdict("vacuous run: no case on a device key whose size is no multiple of 8 (%d), or no genuine signature of such a key accepted" % nodd)
        if summ["predecessors"] == 0:
            raise NoVerdict("vacuous run: no call was issued after an accepted attestation")
        if summ["predecessors_accepted"] != summ["predecessors"] and not verdict.violations and not verdict.known:
            raise NoVerdict("%d of %d accepting predecessors were not accepted, yet nothing was reported" % (summ["predecessors"] - summ["predecessors_accepted"], summ["predecessors"]))
        if ncross == 0 or summ["cross_accepted"] == 0:
            raise NoVerdict("vacuous run: no label x scheme case (%d) or none of them accepted" % ncross)
        cases = cases_t
        if summ["a_cases"] + summ["unrealisable"] + summ["unrealisable_odd"] != want or summ["unrealisable"] > 0 or summ["unrealisable_odd"] > nodd * len(tc["oddbits"]) // 20:
            raise NoVerdict("only %d of %d exported cases were materialised (%d unrealisable)" % (summ["a_cases"], want, summ["unrealisable"]))
        if summ["accepted"] == 0 or summ["b_cases"] == 0:
            raise NoVerdict("vacuous run: no attestation accepted or no direction-B case")
        if summ["primed"] != len(tc["bits"]) + len(tc["oddbits"]) + 4 or summ["twin_calls_on_used"] == 0:
            raise NoVerdict("vacuous run: the genuine certificates were not all accepted on the long-lived Attestor (%d) or no forged twin was presented to it (%d)"
                            % (summ["primed"], summ["twin_calls_on_used"]))
    else:
        if summ["std_rejected_conforming"] > 0:
            raise NoVerdict("crypto/x509 refused %d certificates minted by crypto/x509 (harness problem)" % summ["std_rejected_conforming"])
        byop = collections.Counter(x["c"]["op"] for x in cases)
        if summ["parse"] != byop["parse"] * tc["reps"] or summ["pem"] < byop["pem"] or summ["modhex"] < byop["modhex"] or summ["mut"] == 0:
            raise NoVerdict("not every exported case was executed: %s vs %s" % (json.dumps(summ), dict(byop)))
        agree = sum(1 for x in steps if x["e"]["op"] == "parse" and x["e"]["res"]["yok"] and len(x["e"]["res"]["eq"]) == 11)
        if summ["bufreuse"] < 4 * tc["bufreuse"]:
            raise NoVerdict("vacuous run: the buffer-reuse histories did not run (%d)" % summ["bufreuse"])
        if agree == 0 or summ["alt"] < 2 * tc["alt"]:
            raise NoVerdict("vacuous run: no certificate was parsed in agreement, or the alternating sequence did not run (%d)" % summ["alt"])
    for d in drift[:20]:
        log("SPEC-DRIFT (differs from the precise design, allowed by the property): %s" % json.dumps(d)[:500])
    samples = [sample_of(x["e"]) for x in (steps[:2] + steps[len(steps) // 2:len(steps) // 2 + 2] + steps[-2:])]
    cov = {"states": r.distinct, "transitions": r.generated, "traces_validated_against_impl": nval,
           "samples": samples, "exhaustive": True, "evaluations": nval, "distinct_nontrivial": summ["distinct"],
           "cases_exported_by_tlc": len(cases), "harness_summary": summ, "spec_drift": len(drift), "model_cfg": tc["cfg"]}
    if prop == "C06":
        cov["rule"] = ("TLC enumerates hashes x 2 digest-identifier layouts x every single mutation x 17 labels x 9 chain relations (plus non-RSA device keys), "
                       "checks layout uniqueness / every mutation invalid / acceptance implies every clause; every context with the unmutated message and every "
                       "single mutation under the accepting context is materialised per RSA key size (EM^d mod N computed by the harness) and the verdict of "
                       "(*Attestor).Attest judged by TLC; plus honest signatures, bit flips of signature and body, non-canonical signature values "
                       "(distinct_nontrivial = distinct (abstract case, key size, verdict) combinations observed)")
        assume = ["RSA arithmetic, hashing and certificate minting are the harness's (math/big, crypto/*); TLC decides which abstract cases must be accepted/rejected",
                  "a flipped signature bit yields an encoded message that is projected to the abstract layout by the harness (abstractEM); collisions of digests are ignored",
                  "labels 7..12 (DSA/ECDSA with SHA-x) together with an RSA device key and a valid encoded message are left open by the statement (both verdicts admitted)",
                  "lead octet FF is presented only under a 1024-bit modulus constructed to begin with FF (other moduli cannot produce it)"]
        level = "model_checking"
    else:
        cov["rule"] = ("TLC enumerates key type x signature algorithm x every subset of 7 extension kinds x {clean, trailing}, PEM bundles 0..5 x leading text x trailing "
                       "{none, whitespace, garbage}, serial-extension values of 0..8 octets over a 5-value alphabet with right and wrong headers, checks ModHex injectivity "
                       "and alphabet theorems; every case is minted by crypto/x509 and run through yubiattest.ParseCertificate / ModHex / utils.ParsePEMCertificates, "
                       "compared field by field with crypto/x509.ParseCertificate; byte mutations / truncations only for crash freedom; TLC judges every recorded call")
        assume = ["agreement with the standard library is a differential oracle computed by the harness; TLC decides the verdict class of every shape, not ASN.1 fidelity",
                  "for the NULL-less RSA shapes the reference is the standard parser's view of the conforming twin (same template, NULL present)",
                  "mutated inputs are judged for crash freedom only"]
        level = "exploration"
    rcode = verdict.finish()
    vlib.write_evidence(prop, tier, level, cov, assume, time.time() - t0, len(verdict.violations))
    return rcode


def replay(prop, path):
    recs = vlib.read_ndjson(path)
    meta = recs[0].get("meta", {}) if recs else {}
    evs = [x for x in recs if x.get("ev") == "step"]
    if not evs:
        raise NoVerdict("replay file without a recorded call")
    binp = build(prop)
    wd = vlib.workdir(prop, "replay_run")
    planp, outp = os.path.join(wd, "plan.json"), os.path.join(wd, "obs.ndjson")
    mp = meta.get("plan", {})
    if prop == "C06":
        drop = ("k", "src", "res", "info", "hist")
        asrc = ("A", "A-cross", "A-epoch", "B-pred")
        a = [x for x in evs if x["e"]["src"] in asrc]
        b = [x["tid"] for x in evs if x["e"]["src"] not in asrc]
        bits = sorted({x["e"]["k"] * 8 for x in a if x["e"]["k"] and "-ff" not in x["tid"] and x["e"].get("kc") != "odd"}) or mp.get("bits", [1024])
        oddk = {x["e"]["k"] for x in a if x["e"].get("kc") == "odd"}
        oddbits = [b for b in mp.get("oddbits", [1030, 2041]) if (b + 7) // 8 in oddk] or ([1030] if oddk else [])
        plan = {"c06": {"cases": [{"c": {k: v for k, v in x["e"].items() if k not in drop}} for x in a], "bits": bits,
                        "oddbits": oddbits,
                        "nflip": mp.get("nflip", 40), "only": b, "nob": not b, "workers": 2}}
    else:
        drop = ("src", "res", "info", "der", "hist")
        a = [x for x in evs if x["e"]["src"].startswith("A") and not x["e"].get("der")]
        raw = [x["e"]["der"] for x in evs if x["e"].get("der")]
        cs = []
        for x in a:
            c = {k: v for k, v in x["e"].items() if k not in drop}
            if x["e"]["src"] == "A-parsed":     # the extractor was run on a parsed shape: mint and parse that shape again
                c.update(op="parse", present=False, val=[])
            cs.append({"c": c})
        alt = 0
        if any(x["e"].get("hist") not in (None, "fresh") for x in a):
            # the recorded call followed other calls in the same process: re-create a history of extension-rich and
            # extension-free certificates around it
            blank = dict(p="C16", op="parse", kt="p256", sa="ecdsa-sha256", tail="clean", n=0, lead="none", trail="none", present=False, val=[])
            cs += [{"c": dict(blank, exts=["bc", "ku", "kid", "san", "eku", "pol", "vendor"])}, {"c": dict(blank, exts=[])},
                   {"c": dict(blank, kt="rsa", sa="sha256-rsa", exts=["vendor"])}, {"c": dict(blank, kt="rsa-nonull", sa="sha256-rsa", exts=[])}]
            alt = 25
        bufreuse = 20 if any(x["e"].get("hist") == "buffer_reused" for x in evs) else 0
        plan = {"c16": {"cases": cs, "raw": raw, "mutperpos": 0, "truncstep": 1, "mintevery": 1, "nob": True, "alt": alt, "reps": 1, "bufreuse": bufreuse}}
        if not a and not raw:
            raise NoVerdict("the recorded call carries no input bytes and no model case; nothing to re-execute")
    with open(planp, "w") as f:
        json.dump(plan, f)
    env = {"VERIF_PLAN": planp, "VERIF_OUT": outp, "VERIF_TIER": meta.get("tier", "quick")}
    if "seed" in meta:
        env["VERIF_SEED"] = str(meta["seed"])
    rc, out, err, summ = vlib.run_harness(binp, CONF[prop]["test"], env, timeout=900)
    if rc != 0 or not summ:
        raise NoVerdict("replay harness failed:\n" + out[-2000:] + err[-2000:])
    got = vlib.read_ndjson(outp)
    verdict, drift = vlib.Verdict(prop), []
    judge(prop, verdict, got, "replay", meta, drift)
    for x in got:
        if x.get("ev") == "step":
            log("replayed: %s %s -> %s" % (x["tid"], key_of(prop, x["e"]), json.dumps(x["e"]["res"])))
    return verdict.finish()
