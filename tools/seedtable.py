#!/usr/bin/env python3
"""Prints a markdown table of the independently written seeded changes under /verif/seeded."""
import json, os, glob
rows = []
for d in sorted(glob.glob('/verif/seeded/*')):
    try:
        m = json.load(open(d + '/meta.json'))
    except Exception:
        continue
    c = m.get('confirmed', {})
    rows.append((os.path.basename(d), m.get('property', '?'), m.get('summary', '').replace('|', '/')[:230], m.get('needs', '').replace('|', '/')[:200],
                 'caught (rc=%s, %s violation lines)' % (c.get('check_rc'), c.get('violation_lines')) if c.get('check_rc') == 1 else 'NOT caught (rc=%s)' % c.get('check_rc')))
print('| seed | property | change | needs | result of the registered quick check |')
print('|---|---|---|---|---|')
for r in rows:
    print('| %s | %s | %s | %s | %s |' % r)
