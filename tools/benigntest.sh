#!/bin/bash
# usage: tools/benigntest.sh <dir with all.diff> <Cxx> [more Cxx ...]   - applies a property-preserving change and expects rc=0 from the checks
set -u
src=$1; shift
name=$(basename $src)
export GOFLAGS=-mod=mod GOPROXY=off GOSUMDB=off GOTOOLCHAIN=local
tag=$(basename $(dirname $src))_${name}_$$   # unique per set, round and process: concurrent runs never share a worktree
wt=/tmp/benignchk_$tag
git -C /repo worktree remove --force $wt 2>/dev/null
git -C /repo worktree add --detach $wt HEAD >/dev/null 2>&1 || exit 2
( cd $wt && git apply $src/all.diff ) || { echo "benign=$name all.diff does not apply"; git -C /repo worktree remove --force $wt; exit 2; }
suite=$(cd $wt && go build ./... 2>&1 | head -3; cd $wt && go test -vet=off -count=1 ./... 2>&1 | grep -c "^FAIL\|^--- FAIL")
for prop in "$@"; do
  VERIF_REPO=$wt /verif/bin/check $prop --tier quick > /tmp/benignchk_${tag}_$prop.out 2>/tmp/benignchk_${tag}_$prop.err; rc=$?
  echo "benign=$name prop=$prop suite_failures=$suite check_rc=$rc violations=$(grep -c '^VIOLATION' /tmp/benignchk_${tag}_$prop.out) drift=$(grep -c 'SPEC-DRIFT' /tmp/benignchk_${tag}_$prop.err)"
  grep '^VIOLATION' /tmp/benignchk_${tag}_$prop.out | head -2 | cut -c1-300
  grep 'NO-VERDICT' /tmp/benignchk_${tag}_$prop.err | head -2 | cut -c1-300
done
git -C /repo worktree remove --force $wt
