"""C12, C13: AgentWire.tla checked with TLC, bound to agent/yubiagent by replay of every exported stream / case on the
real ServeAgent / client and by TLC validation of every recorded step (TraceWire.tla)."""
import json, os, re, time
import vlib
from vlib import NoVerdict, log

OVERLAY = {"agent/yubiagent/zz_verif_wire_test.go": os.path.join(vlib.HARNESS, "wire", "zz_verif_wire_test.go"),
           "agent/yubiagent/zz_verif_wire_rpc_test.go": os.path.join(vlib.HARNESS, "wire", "zz_verif_wire_rpc_test.go")}

TRACE_CFG = """SPECIFICATION TraceSpec
CONSTANTS
  Codes = {11}
  MaxItems = 1
  Faults = TRUE
  RKeys = {"k1"}
  RPass = {"p1"}
  MaxHist = 0
  MaxLines = 0
  BigResp = TRUE
  MaxConns = 2
  MaxCItems = 0
"""

MC = {
    "C12": dict(quick="MCWire_q12", thorough="MCWire_t12", test="TestVerifWire", formula="TC12"),
    "C13": dict(quick="MCWire_q13", thorough="MCWire_t13", test="TestVerifRpc", formula="TC13"),
}


ACTIONS = {"C12": ("ConsumeW", "ReleaseW"), "C13": ("ViaClientR", "ListSlotsR", "SlotReplyR")}


def build(prop):
    return vlib.build_harness("wire", "agent/yubiagent", OVERLAY, outdir=os.path.join(vlib.OUT, prop, "bin"))


def model_check(prop, tier, extra_cfg="", cfg=None, actions=None):
    """TLC checks the property formula (and the design invariants) on the bounded model; returns the TLC result."""
    cfg = cfg or MC[prop][tier]
    wd = vlib.workdir(prop, "mc_" + cfg)
    txt = open(os.path.join(vlib.SPEC, cfg + ".cfg")).read() + extra_cfg
    with open(os.path.join(wd, "run.cfg"), "w") as f:
        f.write(txt)
    r = vlib.tlc(wd, "MCWire.tla", "run.cfg", workers=4, timeout=1500, coverage=(tier == "thorough"))
    if r.violated:
        raise NoVerdict("the MODEL violates %s under %s (model counterexample, not a verdict on the code):\n%s" % (r.violated, cfg, r.stdout[-3000:]))
    if r.error or "Model checking completed. No error" not in r.stdout:
        raise NoVerdict("TLC failed on %s: %s" % (cfg, r.error or r.stdout[-2000:]))
    log("[tlc] %s: %d generated / %d distinct, depth %d, %.1fs" % (cfg, r.generated, r.distinct, r.depth, r.wall))
    # (TLC reports the first conjunct of an initial predicate as 0:0; only next-state actions count)
    r.coverage_zero = [a for a in r.coverage_zero if a in (actions or ACTIONS[prop])]
    if r.coverage_zero:
        raise NoVerdict("vacuous model run: actions never taken under %s: %s" % (cfg, r.coverage_zero))
    return r, cfg


def key_c12(rec):
    """Names the input class of a rejected stream: its items (kind/code/length class/body class/aux/variant) and how it ended."""
    e = rec["e"]
    if e.get("conc", 1) > 1:
        ks = e.get("kinds") or []
        bad = sum(1 for i, it in enumerate(e["items"]) if it["k"] == "frame" and it["code"] == 11 and it["len"] == "1" and i < len(ks) and ks[i] != "identities")
        return "conc=%d frames=%d lists_not_answered_with_identities=%d nrep=%d post=%s pan=%s" % (
            e["conc"], len(e["items"]) - 1, bad, e["nrep"], rec["post"]["st"], str(e["pan"]).lower())
    vs = (rec.get("info") or {}).get("vars") or [""] * len(e["items"])
    toks = []
    for it, v in zip(e["items"], vs):
        toks.append("%s/%d/%s/%s/%s/%s" % (it["k"], it["code"], it["len"], it["body"], it["aux"], v))
    return "stream=%s nrep=%d post=%s big=%s pan=%s" % (",".join(toks), e["nrep"], rec["post"]["st"], str(e["big"]).lower(), str(e["pan"]).lower())


def key_c13(rec):
    e = rec["e"]
    info = rec.get("info") or {}
    return "mode=%s op=%s var=%s exit=%d remote=%s pan=%s" % (e["mode"], e["op"], info.get("var", ""), e["exit"],
                                                             str(e["remote"]).lower(), str(e["pan"]).lower())


def why_c13(e):
    w = []
    if e["pan"]:
        w.append("panic")
    if e["mode"] == "rec":
        if e["ncalls"] != 1:
            w.append("served agent saw %d calls" % e["ncalls"])
        w.append("served agent method=%s code=%d" % (e["method"], e["code"]))
    if e.get("shape", "normal") != "normal":
        w.append("served agent returned shape=" + e["shape"])
    for k in ("argeq", "reseq", "steq"):
        if not e[k]:
            w.append(k + "=false")
    w.append("agent_err=%s client_err=%s toolran=%s" % (e["aerr"], e["cerr"], e["toolran"]))
    if e["op"] == "listslots":
        w.append("lines=%s slots=%s" % (json.dumps(e["lines"]), json.dumps(e["slots"])))
    return "; ".join(w)


def judge(prop, verdict, traces, label, drift):
    """TLC validates the recorded traces; rejected steps of the property's formula become violations."""
    fml = MC[prop]["formula"]
    twd = vlib.workdir(prop, "tv_" + label)
    nall = len(traces)
    ts, mult = vlib.dedupe_traces(traces)
    rejected, vst = vlib.validate_traces(prop, twd, "TraceWire.tla", TRACE_CFG, [fml, "Strict"], ts)
    log("[tlc] trace validation %s: %d traces (%d distinct), %d events, %.1fs, %d rejected by %s" %
        (label, nall, len(ts), vst["events"], vst["wall"], len(rejected[fml]), fml))
    seen = set()
    for (ti, li) in rejected[fml]:
        rec = ts[ti][li]
        k = key_c12(rec) if prop == "C12" else key_c13(rec)
        first = k not in seen
        seen.add(k)
        rp = "(see the first violation with this key)"
        if first:
            rp = vlib.save_replay(prop, "%s_%s.ndjson" % (label, rec["tid"]), ts[ti])
        if first or len(verdict.violations) < 25:
            text = "step %d of trace %s (and %d identical traces) is not a step %s allows: %s" % (
                li, rec["tid"], mult[ti] - 1, fml,
                ("%d response frames %s, service ended '%s' (%s), responses while each item was current %s" % (
                    rec["e"]["nrep"], ((rec.get("info") or {}).get("replies") or [])[:40], rec["post"]["st"], (rec.get("info") or {}).get("ret"),
                    (rec.get("info") or {}).get("attributed"))) if prop == "C12" else why_c13(rec["e"]))
            verdict.violation(k, text, rp)
    for (ti, li) in rejected["Strict"]:
        if (ti, li) not in rejected[fml]:
            drift.append({"trace": ts[ti][0]["tid"], "step": ts[ti][li].get("e")})
    return nall, vst


FATAL_RE = re.compile(r"fatal error: concurrent map[^\n]*")


def run_conc(prop, binp, plan, label, timeout):
    """The multi-connection stage runs in its own process: unsynchronised access to a shared map makes the Go runtime
    abort the whole process ('fatal error: concurrent map ...', not recoverable).  That death is the observation
    'the process crashed while serving well-formed requests'; it is handed to TLC as a crashed connection."""
    wd = vlib.workdir(prop, "run_" + label)
    planp, outp = os.path.join(wd, "plan.json"), os.path.join(wd, "obs.ndjson")
    with open(planp, "w") as f:
        json.dump(plan, f)
    rc, out, err, summ = vlib.run_harness(binp, "TestVerifWireConc", {"VERIF_PLAN": planp, "VERIF_OUT": outp}, timeout=timeout, cwd=wd)
    if rc != 0 or not summ:
        m = FATAL_RE.search(err) or FATAL_RE.search(out)
        if not m:
            raise NoVerdict("wire harness (concurrent stage) failed (rc=%d):\n%s\n%s" % (rc, out[-3000:], err[-3000:]))
        txt = err if FATAL_RE.search(err) else out
        i = txt.index(m.group(0))
        lst = {"k": "frame", "code": 11, "len": "1", "body": "none", "aux": "none"}
        pre = {"pos": 1, "st": "running", "out": []}
        info = {"conc": dict(plan, seed=vlib.seed(), session=-1), "fatal": m.group(0), "stack": txt[i:i + 3000]}
        crash = [{"ev": "reset", "fam": "w", "tid": "kfatal", "post": pre, "info": info},
                 {"ev": "step", "fam": "w", "tid": "kfatal", "pre": pre,
                  "e": {"items": [lst], "nrep": 0, "nrel": 0, "pan": True, "big": False, "conc": 2, "kinds": []},
                  "post": {"pos": 2, "st": "crashed", "out": []},
                  "info": {"vars": ["process died: " + m.group(0)], "ret": m.group(0), "replies": [], "attributed": []}}]
        log("[harness] the process serving the concurrent connections died: %s" % m.group(0))
        return [crash], {"stats": {"process_died": 1}, "samples": []}
    recs = []
    with open(outp) as f:
        for line in f:
            try:
                recs.append(json.loads(line))
            except ValueError:
                pass
    return vlib.split_traces(recs), summ


def run_harness(prop, binp, plan, label, timeout):
    wd = vlib.workdir(prop, "run_" + label)
    planp, outp = os.path.join(wd, "plan.json"), os.path.join(wd, "obs.ndjson")
    with open(planp, "w") as f:
        json.dump(plan, f)
    rc, out, err, summ = vlib.run_harness(binp, MC[prop]["test"], {"VERIF_PLAN": planp, "VERIF_OUT": outp}, timeout=timeout, cwd=wd)
    if rc != 0 or not summ:
        raise NoVerdict("wire harness failed (rc=%d):\n%s\n%s" % (rc, out[-3000:], err[-3000:]))
    return vlib.split_traces(vlib.read_ndjson(outp)), summ


def replay(prop, path):
    """Re-execute a recorded trace on the real code (current working tree) and judge it again."""
    recs = vlib.read_ndjson(path)
    info = recs[0].get("info") or {}
    binp = build(prop)
    if prop == "C12" and "conc" in info:
        # the concurrent stage is re-run as a whole with the recorded seed (the interleaving is the scheduler's)
        os.environ["VERIF_SEED"] = str(info["conc"].get("seed", vlib.seed()))
        ts, summ = run_conc(prop, binp, {"sessions": info["conc"]["sessions"], "rounds": info["conc"]["rounds"]}, "replay", 1200)
        verdict, drift = vlib.Verdict(prop), []
        judge(prop, verdict, ts, "replay", drift)
        log("replayed the concurrent stage: %s" % json.dumps(summ.get("stats")))
        return verdict.finish()
    if prop == "C12":
        plan = {"streams": [], "groups": {}, "group_of": {}, "sweep": False, "random": 0, "maxlen": 1,
                "replays": [{"items": info["items"], "conn": info.get("conn", "mem")}], "workers": 1}
    else:
        plan = {"cases": [], "tools": [], "random": 0, "replays": [info["gen"]], "workers": 1}
        os.environ["VERIF_SEED"] = str(info["gen"].get("seed", vlib.seed()))
    ts, summ = run_harness(prop, binp, plan, "replay", 600)
    verdict, drift = vlib.Verdict(prop), []
    judge(prop, verdict, ts, "replay", drift)
    for t in ts:
        for r in t[1:]:
            log("replayed: %s -> %s" % (json.dumps(r["e"]), json.dumps(r["post"])))
    return verdict.finish()


def run(prop, tier):
    t0 = time.time()
    verdict, drift = vlib.Verdict(prop), []
    binp = build(prop)
    if prop == "C12":
        # thorough: the 20 boundary codes (t12) and, on the small code set, responses next to / above 16 MiB (b12)
        wcfgs = ["MCWire_q12"] if tier == "quick" else ["MCWire_t12", "MCWire_b12"]
        r = cfg = summ = None
        nval, nstreams, st = 0, 0, {}
        plan = {}
        for ci, wcfg in enumerate(wcfgs):
            ri, cfg_i = model_check(prop, tier, cfg=wcfg)
            streams = vlib.tlc_json_lines(ri.stdout, "ST")
            gr = vlib.tlc_json_lines(ri.stdout, "GR")[0]
            if not streams:
                raise NoVerdict("TLC exported no stream")
            first = ci == 0
            plan = {"streams": streams, "groups": gr["groups"], "group_of": {str(k): v for k, v in gr["group_of"].items()},
                    "resp_sizes": {k: sorted(v) for k, v in gr["resp_sizes"].items()},
                    "sweep": first, "random": (1500 if tier == "quick" else 20000) if first else 0, "maxlen": 6 if tier == "quick" else 10,
                    "replays": [], "workers": 3, "pipe_every": 7}
            ts, summ_i = run_harness(prop, binp, plan, cfg_i, 3000)
            st_i = summ_i["stats"]
            if st_i.get("streams", 0) < len(streams):
                raise NoVerdict("the harness replayed %d of %d exported streams" % (st_i.get("streams", 0), len(streams)))
            nv, vst = judge(prop, verdict, ts, cfg_i, drift)
            nval += nv
            nstreams += len(streams)
            for k, v in st_i.items():
                st[k] = max(st.get(k, 0), v) if k in ("distinct_labels", "codes_seen") else st.get(k, 0) + v
            if first:
                r, cfg, summ, plan0 = ri, cfg_i, summ_i, plan
            else:
                r.distinct += ri.distinct
                r.generated += ri.generated
        plan = plan0
        streams = range(nstreams)
        # several connections to one server at the same time (AgentWire part 3)
        rc_, ccfg = model_check(prop, tier, cfg=("MCWire_q12c" if tier == "quick" else "MCWire_t12c"), actions=("StartC", "ConsumeC"))
        cplan = {"sessions": 80 if tier == "quick" else 600, "rounds": 12}
        cts, csumm = run_conc(prop, binp, cplan, ccfg, 3000)
        cst = csumm["stats"]
        if not cst.get("process_died") and cst.get("sessions", 0) < cplan["sessions"]:
            raise NoVerdict("the concurrent stage ran %d of %d sessions" % (cst.get("sessions", 0), cplan["sessions"]))
        cval, _ = judge(prop, verdict, cts, ccfg, drift)
        nval += cval
        r.distinct += rc_.distinct
        r.generated += rc_.generated
        summ["samples"] = (summ["samples"] or [])[:4] + (csumm["samples"] or [])[:2]
        cov = {"states": r.distinct, "transitions": r.generated, "traces_validated_against_impl": nval,
               "concurrent_sessions": cst.get("sessions", 0), "concurrent_connections": cst.get("connections", 0),
               "concurrent_rounds": cst.get("rounds", 0), "concurrent_frames": cst.get("frames", 0),
               "concurrent_process_died": cst.get("process_died", 0),
               "samples": summ["samples"] or [["(no sample)"]], "exhaustive": True,
               "exported_streams": len(streams), "replayed_streams": st.get("streams", 0),
               "streams_over_net_pipe": st.get("streams_pipe", 0), "random_streams": plan["random"],
               "evaluations": st.get("steps", 0), "distinct_nontrivial": st.get("distinct_labels", 0),
               "message_codes_exercised": st.get("codes_seen", 0), "panics_observed": st.get("panics", 0),
               "rule": "every stream of <= 3 items of the bounded model is instantiated with concrete bytes and served by the real ServeAgent; every code 0..255 in every frame shape; random/grammar streams; every served stream (items, number of response frames, end status, panic, allocation) is judged by TLC with C12_Stream, the set of outcomes the statement allows for that item list, independent of how the server reads its input (distinct_nontrivial = distinct (item class, responses while current, end) labels observed; evaluations = items served)",
               "spec_drift": len(drift), "zero_coverage_actions": r.coverage_zero, "model_cfgs": wcfgs + [ccfg],
               "sized_responses_checked": st.get("sized", 0), "sized_responses_intact": st.get("sizedok", 0)}
        cov["rule"] += "; concurrent stage: 2..8 connections to one real NewServer, each sending well-formed frames in lock step at the same time while the shim holds expired hardware certificates; per connection judged with C12_Conn (stream outcome + every list request answered with an identities answer); the stage runs in its own process and a runtime abort ('fatal error: concurrent map ...') is judged as a crashed connection"
        assumptions = ["the underlying agent is x/crypto's keyring behind the harness frame proxy on a unix socket; it answers every forwarded request unless the harness makes it close the connection",
                       "only the number of response frames and the end status are judged (responses are not attributed to requests: a server may read ahead); order is therefore checked as a count per stream prefix, not by response content",
                       "allocation is runtime.MemStats.TotalAlloc around the ServeAgent call, measured with no other stream running; 'allocates for the frame' means >= 1 MiB"]
    else:
        cov, assumptions = run_c13(prop, tier, binp, verdict, drift)
    for d in drift[:20]:
        log("SPEC-DRIFT (observer bookkeeping only; no listed property rejects it): %s" % json.dumps(d)[:600])
    rc = verdict.finish()
    vlib.write_evidence(prop, tier, "model_checking", cov, assumptions, time.time() - t0, len(verdict.violations))
    return rc


def run_c13(prop, tier, binp, verdict, drift):
    r, cfg = model_check(prop, tier)
    un = vlib.tlc_json_lines(r.stdout, "RU")[0]
    plan = {"cases": un["cases"], "tools": un["tools"], "linedefs": un["lines"],
            "random": 120 if tier == "quick" else 1500, "histlen": 12 if tier == "quick" else 30,
            "reps": 2 if tier == "quick" else 10, "replays": [], "workers": 3}
    ts, summ = run_harness(prop, binp, plan, cfg, 3000)
    st = summ["stats"]
    if st.get("cases", 0) < len(un["cases"]) * plan["reps"] or st.get("tools", 0) < len(un["tools"]):
        raise NoVerdict("the harness replayed %d/%d operation cases and %d/%d tool outputs" %
                        (st.get("cases", 0), len(un["cases"]), st.get("tools", 0), len(un["tools"])))
    nval, vst = judge(prop, verdict, ts, cfg, drift)
    cov = {"states": r.distinct, "transitions": r.generated, "traces_validated_against_impl": nval,
           "samples": summ["samples"] or [["(no sample)"]], "exhaustive": True,
           "exported_operation_cases": len(un["cases"]), "exported_tool_outputs": len(un["tools"]),
           "replayed_operation_cases": st.get("cases", 0), "replayed_tool_outputs": st.get("tools", 0),
           "random_histories": st.get("histories", 0), "evaluations": st.get("steps", 0),
           "distinct_nontrivial": st.get("distinct_labels", 0), "panics_observed": st.get("panics", 0),
           "rule": "every (operation, argument class) case and every PIV tool output of <= 3 lines of the bounded model is executed through the real client <-> ServeAgent (recording agent, real *server twin, fake yubico-piv-tool); random histories with concrete values; every recorded step is judged by TLC with C13_Step (distinct_nontrivial = distinct (mode, operation, outcome) labels observed)",
           "spec_drift": len(drift), "zero_coverage_actions": r.coverage_zero, "model_cfgs": [cfg]}
    assumptions = ["error texts returned by the served agent are non-empty and differ from the literal success marker 'SUCCESS' (the protocol cannot distinguish them)",
                   "slot names returned by a served agent contain no comma (the wire format is a comma separated name-list)",
                   "certificates are ones the repository's yubiattest parser accepts; the fake tool is a shell script",
                   "listings are compared as multisets, signatures of the real twin by verification, everything else byte for byte"]
    return cov, assumptions
