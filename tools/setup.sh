#!/bin/sh
# Offline setup: nothing to fetch; warm the Go build cache for the harness packages and check the tools exist.
export GOFLAGS=-mod=mod GOPROXY=off GOSUMDB=off GOTOOLCHAIN=local
command -v java >/dev/null || { echo "java missing"; exit 1; }
test -f /opt/veriftools/tla/tla2tools.jar || { echo "tla2tools.jar missing"; exit 1; }
mkdir -p /verif/out
( cd /repo && go build ./... ) || exit 1
exit 0
